#!/usr/bin/env bash
# Negative controls: applies each property-PRESERVING refactor under
# controls/<id>/patch.diff to /repo's working tree, runs the four quick checks
# (every one must exit 0), reverts. /repo must be clean.
set -u
HERE="$(cd "$(dirname "$0")" && pwd)"
if [ -n "$(git -C /repo status --porcelain --untracked-files=no)" ]; then
  echo "refusing: /repo has uncommitted changes"; exit 2
fi
trap 'git -C /repo checkout -- . 2>/dev/null' EXIT
bad=0; rows=()
for patch in "$HERE"/controls/*/patch.diff; do
  name="controls/$(basename "$(dirname "$patch")")"
  git -C /repo apply "$patch" 2>/dev/null || { echo "$name: patch does not apply"; bad=1; continue; }
  res=""
  for p in C20 C15 C19 C03; do
    timeout 900 "$HERE/check" $p quick >/dev/null 2>&1; rc=$?
    res="$res $p=$rc"; [ $rc -ne 0 ] && bad=1
  done
  git -C /repo checkout -- .
  find "$HERE/replays" -name '*.json' -delete 2>/dev/null
  echo "$name:$res"
  rows+=("{\"control\":\"$name\",\"exit_codes\":\"${res# }\"}")
done
printf '{"selftest":"specificity","results":[%s]}\n' "$(IFS=,; echo "${rows[*]}")" > "$HERE/evidence/selftest-specificity.json"
"$HERE/check" build >/dev/null 2>&1
[ $bad -eq 0 ] && { echo "specificity selftest: PASS (no alarm on any control)"; exit 0; } || { echo "specificity selftest: FAIL"; exit 1; }
