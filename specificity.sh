#!/usr/bin/env bash
# Negative controls: applies each property-PRESERVING refactor under
# controls/<id>/patch.diff to /repo's working tree, runs the four quick checks
# (every one must exit 0), reverts. /repo must be clean.
set -u
HERE="$(cd "$(dirname "$0")" && pwd)"
only="${1:-}"   # optional: only the controls whose name contains this
if [ -n "$(git -C /repo status --porcelain --untracked-files=no)" ]; then
  echo "refusing: /repo has uncommitted changes"; exit 2
fi
trap 'git -C /repo checkout -- . 2>/dev/null' EXIT
bad=0; rows=()
for patch in "$HERE"/controls/*/patch.diff; do
  name="controls/$(basename "$(dirname "$patch")")"
  [ -n "$only" ] && [[ "$name" != *"$only" ]] && continue
  git -C /repo apply "$patch" 2>/dev/null || { echo "$name: patch does not apply"; bad=1; continue; }
  res=""
  for p in C20 C15 C19 C03; do
    timeout 900 "$HERE/check" $p quick >/dev/null 2>&1; rc=$?
    res="$res $p=$rc"; [ $rc -ne 0 ] && bad=1
  done
  git -C /repo checkout -- .
  find "$HERE/replays" -name '*.json' -delete 2>/dev/null
  echo "$name:$res"
  rows+=("{\"control\":\"$name\",\"exit_codes\":\"${res# }\"}")
done
# rows are merged into the evidence file by control name (a filtered run
# replaces only its own rows)
printf '[%s]\n' "$(IFS=,; echo "${rows[*]}")" | python3 -c '
import json, sys
new = json.load(sys.stdin); out = sys.argv[1]
try: old = json.load(open(out))["results"] if sys.argv[2] else []
except Exception: old = []
names = {r["control"] for r in new}
rows = [r for r in old if r["control"] not in names] + new
rows.sort(key=lambda r: int(r["control"].split("/n")[1]))
json.dump({"selftest": "specificity", "results": rows}, open(out, "w"), indent=0)
' "$HERE/evidence/selftest-specificity.json" "$only"
"$HERE/check" build >/dev/null 2>&1
[ $bad -eq 0 ] && { echo "specificity selftest: PASS (no alarm on any control)"; exit 0; } || { echo "specificity selftest: FAIL"; exit 1; }
