#!/usr/bin/env bash
# ./check selftest determinism [n]   — event-log fingerprints of n seeds per
#   property, computed in 1, 4 and 16 separate processes, twice, per build
#   profile; every pass must produce the identical list.
# ./check selftest sensitivity       — applies every patch under /verif/seeded
#   and /verif/mutants to a scratch copy of /repo and reports which quick check
#   catches it (see seeded/README in DESIGN.md section 8).
set -u
HERE="$(cd "$(dirname "$0")" && pwd)"
SIM="$HERE/sim"
mode="${1:-determinism}"
case "$mode" in
determinism)
  n="${2:-3000}"
  "$HERE/check" build || exit 2
  tmp="$SIM/target/tmp/selftest-$$"; mkdir -p "$tmp"
  fail=0; report="["
  for prof in release checked; do
    bin="$SIM/target/$prof/tzsim"
    for prop in C20 C15 C19 C03; do
      for pass in a b; do
        for w in 1 4 16; do
          chunk=$(( (n + w - 1) / w ))
          pids=()
          for ((i=0;i<w;i++)); do
            start=$(( i * chunk )); cnt=$chunk
            [ $(( start + cnt )) -gt $n ] && cnt=$(( n - start ))
            [ $cnt -le 0 ] && continue
            "$bin" fingerprints --prop $prop --seed "${VERIF_SEED:-1}" --start $start --count $cnt \
               > "$tmp/$prof-$prop-$pass-$w-$(printf %03d $i).txt" 2>/dev/null &
            pids+=($!)
          done
          for p in "${pids[@]}"; do wait $p || fail=1; done
          cat "$tmp/$prof-$prop-$pass-$w-"*.txt > "$tmp/$prof-$prop-$pass-$w.all"
        done
      done
      ref="$tmp/$prof-$prop-a-1.all"
      lines=$(wc -l < "$ref")
      distinct=$(awk '{print $2}' "$ref" | sort -u | wc -l)
      ok=true
      for f in "$tmp/$prof-$prop-"*.all; do
        cmp -s "$ref" "$f" || { ok=false; fail=1; echo "DIVERGENCE: $f differs from $ref"; diff "$ref" "$f" | head -5; }
      done
      [ "$lines" -eq "$n" ] || { ok=false; fail=1; echo "missing lines for $prof $prop: $lines"; }
      echo "determinism $prof $prop: $n seeds x 6 passes (1,4,16 processes, twice): identical=$ok distinct_fingerprints=$distinct"
      report="$report{\"profile\":\"$prof\",\"property\":\"$prop\",\"seeds\":$n,\"passes\":6,\"process_counts\":[1,4,16],\"identical\":$ok,\"distinct_fingerprints\":$distinct},"
    done
  done
  report="${report%,}]"
  mkdir -p "$HERE/evidence"
  echo "{\"selftest\":\"determinism\",\"verif_seed\":${VERIF_SEED:-1},\"results\":$report}" > "$HERE/evidence/selftest-determinism.json"
  rm -rf "$tmp"
  [ $fail -eq 0 ] && { echo "determinism selftest: PASS"; exit 0; } || { echo "determinism selftest: FAIL"; exit 2; }
  ;;
sensitivity)
  exec "$HERE/sensitivity.sh" "${@:2}" ;;
specificity)
  exec "$HERE/specificity.sh" "${@:2}" ;;
*) echo "usage: ./check selftest determinism [n] | sensitivity | specificity"; exit 2 ;;
esac
