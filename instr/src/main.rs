//! stmt-points <in.rs> <out.rs> <label>
//!
//! Copies a Rust source file and inserts, before every `let` / expression /
//! macro statement of every non-const function body, the statement
//!
//!   #[cfg(all(temporal_verif, feature = "sys"))] crate::verif_hooks::point("<label>:<line>");
//!
//! The original text is kept byte for byte (insertions only, on the same
//! line, so line numbers do not move). With the hook's `Env::point` this makes
//! every statement boundary of the instrumented file a scheduling point for
//! the simulator. Exit 0 on success, 1 if the file cannot be parsed.

use syn::visit::{self, Visit};

struct V {
    /// (line (1-based), column (0-based, in chars)) where to insert
    at: Vec<(usize, usize)>,
    skip_depth: usize,
    /// Only instrument methods (functions inside `impl` blocks): free
    /// functions of the file are pure helpers.
    impl_only: bool,
}

impl<'ast> Visit<'ast> for V {
    fn visit_item_mod(&mut self, m: &'ast syn::ItemMod) {
        // do not touch test modules
        if m.ident == "tests" || m.ident == "test" {
            return;
        }
        visit::visit_item_mod(self, m);
    }
    fn visit_item_fn(&mut self, f: &'ast syn::ItemFn) {
        if f.sig.constness.is_some() || self.impl_only {
            return;
        }
        visit::visit_item_fn(self, f);
    }
    fn visit_impl_item_fn(&mut self, f: &'ast syn::ImplItemFn) {
        if f.sig.constness.is_some() {
            return;
        }
        visit::visit_impl_item_fn(self, f);
    }
    fn visit_item_const(&mut self, _: &'ast syn::ItemConst) {}
    fn visit_item_static(&mut self, _: &'ast syn::ItemStatic) {}
    fn visit_impl_item_const(&mut self, _: &'ast syn::ImplItemConst) {}
    fn visit_expr_const(&mut self, _: &'ast syn::ExprConst) {}
    fn visit_block(&mut self, b: &'ast syn::Block) {
        if self.skip_depth == 0 {
            for s in &b.stmts {
                use syn::spanned::Spanned;
                let span = match s {
                    syn::Stmt::Local(l) => Some(l.span()),
                    syn::Stmt::Expr(e, _) => Some(e.span()),
                    syn::Stmt::Macro(m) => Some(m.span()),
                    syn::Stmt::Item(_) => None,
                };
                if let Some(sp) = span {
                    let st = sp.start();
                    if st.line > 0 {
                        self.at.push((st.line, st.column));
                    }
                }
            }
        }
        visit::visit_block(self, b);
    }
}

fn main() {
    let args: Vec<String> = std::env::args().collect();
    if args.len() < 4 {
        eprintln!("usage: stmt-points <in.rs> <out.rs> <label>");
        std::process::exit(2);
    }
    let src = std::fs::read_to_string(&args[1]).expect("read input");
    let file = match syn::parse_file(&src) {
        Ok(f) => f,
        Err(e) => {
            eprintln!("stmt-points: cannot parse {}: {e}", args[1]);
            std::process::exit(1);
        }
    };
    let mut v = V { at: vec![], skip_depth: 0, impl_only: args.iter().any(|a| a == "--impl-only") };
    v.visit_file(&file);
    v.at.sort();
    v.at.dedup();
    let mut lines: Vec<String> = src.split('\n').map(|s| s.to_string()).collect();
    // insert from the end of each line backwards so columns stay valid
    for (line, col) in v.at.iter().rev() {
        let l = &mut lines[*line - 1];
        let byte = l.char_indices().nth(*col).map(|(i, _)| i).unwrap_or(l.len());
        let ins = format!(
            "#[cfg(all(temporal_verif, feature = \"sys\"))] crate::verif_hooks::point(\"{}:{}\"); ",
            args[3], line
        );
        l.insert_str(byte, &ins);
    }
    // In the instrumented copy (which is only ever built with
    // --cfg temporal_verif) locks taken directly from std::sync go through the
    // reporting shims as well: `verif_hooks::sync` re-exports all of std::sync
    // and only redefines Mutex / RwLock / LazyLock. Without this a thread
    // parked at a statement point while holding a real lock would stall the
    // simulator.
    let reroute = args.iter().any(|a| a == "--reroute-sync");
    let mut text = lines.join("\n");
    if reroute {
        text = text.replace("std::sync::", "crate::verif_hooks::sync::");
    }
    std::fs::write(&args[2], text).expect("write output");
    println!("stmt-points: {} points inserted into {}", v.at.len(), args[3]);
}
