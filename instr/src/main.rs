//! stmt-points <in.rs> <out.rs> <label>
//!
//! Copies a Rust source file and inserts, before every `let` / expression /
//! macro statement of every non-const function body, the statement
//!
//!   #[cfg(all(temporal_verif, feature = "sys"))] crate::verif_hooks::point("<label>:<line>");
//!
//! The original text is kept byte for byte (insertions only, on the same
//! line, so line numbers do not move). With the hook's `Env::point` this makes
//! every statement boundary of the instrumented file a scheduling point for
//! the simulator. Exit 0 on success, 1 if the file cannot be parsed.

use syn::visit::{self, Visit};

struct V {
    /// (line (1-based), column (0-based, in chars)) where to insert
    at: Vec<(usize, usize)>,
    /// the same for loop heads (these points are always honoured)
    loops: Vec<(usize, usize)>,
    skip_depth: usize,
    /// > 0 while inside the body of an instrumented (non-const) function
    in_fn: usize,
    /// Only instrument methods (functions inside `impl` blocks): free
    /// functions of the file are pure helpers.
    impl_only: bool,
}

impl V {
    fn loop_head(&mut self, body: &syn::Block) {
        if self.skip_depth == 0 && self.in_fn > 0 {
            let at = body.brace_token.span.open().end();
            if at.line > 0 {
                self.loops.push((at.line, at.column));
            }
        }
    }
}

impl<'ast> Visit<'ast> for V {
    fn visit_item_mod(&mut self, m: &'ast syn::ItemMod) {
        // do not touch test modules
        if m.ident == "tests" || m.ident == "test" {
            return;
        }
        visit::visit_item_mod(self, m);
    }
    fn visit_item_fn(&mut self, f: &'ast syn::ItemFn) {
        if f.sig.constness.is_some() || self.impl_only {
            return;
        }
        self.in_fn += 1;
        visit::visit_item_fn(self, f);
        self.in_fn -= 1;
    }
    fn visit_impl_item_fn(&mut self, f: &'ast syn::ImplItemFn) {
        if f.sig.constness.is_some() {
            return;
        }
        self.in_fn += 1;
        visit::visit_impl_item_fn(self, f);
        self.in_fn -= 1;
    }
    fn visit_item_const(&mut self, _: &'ast syn::ItemConst) {}
    fn visit_item_static(&mut self, _: &'ast syn::ItemStatic) {}
    fn visit_impl_item_const(&mut self, _: &'ast syn::ImplItemConst) {}
    fn visit_expr_const(&mut self, _: &'ast syn::ExprConst) {}
    // Loop heads: a point right after the opening brace of every loop body,
    // also when the body is empty (`while flag.swap(true, Acquire) {}`), so
    // that a spin-wait cannot keep the simulator's baton for ever.
    fn visit_expr_while(&mut self, e: &'ast syn::ExprWhile) {
        self.loop_head(&e.body);
        visit::visit_expr_while(self, e);
    }
    fn visit_expr_loop(&mut self, e: &'ast syn::ExprLoop) {
        self.loop_head(&e.body);
        visit::visit_expr_loop(self, e);
    }
    fn visit_expr_for_loop(&mut self, e: &'ast syn::ExprForLoop) {
        self.loop_head(&e.body);
        visit::visit_expr_for_loop(self, e);
    }
    fn visit_block(&mut self, b: &'ast syn::Block) {
        if self.skip_depth == 0 {
            for s in &b.stmts {
                use syn::spanned::Spanned;
                let span = match s {
                    syn::Stmt::Local(l) => Some(l.span()),
                    syn::Stmt::Expr(e, _) => Some(e.span()),
                    syn::Stmt::Macro(m) => Some(m.span()),
                    syn::Stmt::Item(_) => None,
                };
                if let Some(sp) = span {
                    let st = sp.start();
                    if st.line > 0 {
                        self.at.push((st.line, st.column));
                    }
                }
            }
        }
        visit::visit_block(self, b);
    }
}

fn main() {
    let args: Vec<String> = std::env::args().collect();
    if args.len() < 4 {
        eprintln!("usage: stmt-points <in.rs> <out.rs> <label>");
        std::process::exit(2);
    }
    let src = std::fs::read_to_string(&args[1]).expect("read input");
    let file = match syn::parse_file(&src) {
        Ok(f) => f,
        Err(e) => {
            eprintln!("stmt-points: cannot parse {}: {e}", args[1]);
            std::process::exit(1);
        }
    };
    let mut v = V { at: vec![], loops: vec![], skip_depth: 0, in_fn: 0, impl_only: args.iter().any(|a| a == "--impl-only") };
    v.visit_file(&file);
    v.at.sort();
    v.at.dedup();
    v.loops.sort();
    v.loops.dedup();
    let mut all: Vec<(usize, usize, bool)> = v.at.iter().map(|(l, c)| (*l, *c, false)).collect();
    all.extend(v.loops.iter().map(|(l, c)| (*l, *c, true)));
    all.sort();
    let mut lines: Vec<String> = src.split('\n').map(|s| s.to_string()).collect();
    // insert from the end of each line backwards so columns stay valid
    for (line, col, is_loop) in all.iter().rev() {
        let l = &mut lines[*line - 1];
        let byte = l.char_indices().nth(*col).map(|(i, _)| i).unwrap_or(l.len());
        let ins = format!(
            "#[cfg(all(temporal_verif, feature = \"sys\"))] crate::verif_hooks::point(\"{}{}:{}\"); ",
            if *is_loop { "loop:" } else { "" },
            args[3],
            line
        );
        l.insert_str(byte, &ins);
    }
    // In the instrumented copy (which is only ever built with
    // --cfg temporal_verif) locks taken directly from std::sync go through the
    // reporting shims as well: `verif_hooks::sync` re-exports all of std::sync
    // and only redefines Mutex / RwLock / LazyLock. Without this a thread
    // parked at a statement point while holding a real lock would stall the
    // simulator.
    let reroute = args.iter().any(|a| a == "--reroute-sync");
    let mut text = lines.join("\n");
    if reroute {
        text = text.replace("std::sync::", "crate::verif_hooks::sync::");
    }
    std::fs::write(&args[2], text).expect("write output");
    println!("stmt-points: {} statement points and {} loop heads inserted into {}", v.at.len(), v.loops.len(), args[3]);
}
