//! tzsim — deterministic simulation with fault injection for temporal_rs'
//! process-wide time-zone provider, its zoneinfo reader and its clock seam.
//!
//!   tzsim check   --prop C20 --tier quick --bins <a>,<b> [--workers N]
//!   tzsim worker  --prop C20 --tier quick --seed S --start A --count N --out F
//!   tzsim replay  <file>
//!   tzsim fingerprints --prop C20 --seed S --start A --count N
//!   tzsim show    --prop C20 --seed S --index I

mod disk;
mod free;
mod gen;
mod master;
mod ops;
mod plan;
mod props;
mod rng;
mod shrink;
mod simenv;

use rng::Rng;
use serde_json::{json, Value};
use std::collections::{BTreeMap, BTreeSet};
use std::io::Write;

/// Root of the verification tree (the `check` script exports its own
/// directory so that a snapshot elsewhere writes into itself).
pub fn verif_dir() -> String {
    std::env::var("TZSIM_VERIF_DIR").unwrap_or_else(|_| "/verif".to_string())
}

pub fn arg(args: &[String], name: &str) -> Option<String> {
    args.iter().position(|a| a == name).and_then(|i| args.get(i + 1).cloned())
}

pub fn prop_tag(prop: &str) -> u64 {
    let mut h = rng::Fnv::new();
    h.str(prop);
    h.0
}

pub fn run_seed(seed: u64, prop: &str, index: u64) -> u64 {
    Rng::derive(seed, prop_tag(prop), index).next()
}

pub fn profile_name() -> &'static str {
    if cfg!(debug_assertions) {
        "checked"
    } else {
        "release"
    }
}

pub struct KnownFindings {
    /// (property, key substring, description)
    pub findings: Vec<(String, String, String)>,
}
impl KnownFindings {
    pub fn load() -> Self {
        let mut findings = vec![];
        if let Ok(s) = std::fs::read_to_string(format!("{}/known-findings.txt", verif_dir())) {
            for line in s.lines() {
                let line = line.trim();
                let Some(rest) = line.strip_prefix("finding:") else { continue };
                let mut prop = String::new();
                let mut key = String::new();
                let mut desc = vec![];
                for w in rest.split_whitespace() {
                    if let Some(p) = w.strip_prefix("property=") {
                        prop = p.to_string();
                    } else if let Some(k) = w.strip_prefix("key=") {
                        key = k.to_string();
                    } else {
                        desc.push(w);
                    }
                }
                if !prop.is_empty() && !key.is_empty() {
                    findings.push((prop, key, desc.join(" ")));
                }
            }
        }
        KnownFindings { findings }
    }
    pub fn matches(&self, prop: &str, class: &str) -> Option<String> {
        self.findings
            .iter()
            .find(|(p, k, _)| p == prop && class.contains(k.as_str()))
            .map(|(_, k, d)| format!("key={k} {d}"))
    }
}

fn add_map(dst: &mut BTreeMap<String, u64>, src: &BTreeMap<String, u64>) {
    for (k, v) in src {
        *dst.entry(k.clone()).or_insert(0) += v;
    }
}

fn map_json(m: &BTreeMap<String, u64>) -> Value {
    Value::Object(m.iter().map(|(k, v)| (k.clone(), json!(v))).collect())
}

fn write_u64s(path: &str, xs: impl Iterator<Item = u64>) {
    let mut buf = Vec::new();
    for x in xs {
        buf.extend_from_slice(&x.to_le_bytes());
    }
    let _ = std::fs::write(path, buf);
}

/// Watchdog: a real lock taken behind the shims' back (or any other stall)
/// would hang the baton for ever. No progress for 60 s = harness error.
fn start_watchdog() -> std::sync::Arc<std::sync::atomic::AtomicU64> {
    let progress = std::sync::Arc::new(std::sync::atomic::AtomicU64::new(0));
    let p2 = progress.clone();
    std::thread::spawn(move || {
        let mut last = (0u64, 0u64);
        let mut idle = 0;
        loop {
            std::thread::sleep(std::time::Duration::from_secs(1));
            let now = (p2.load(std::sync::atomic::Ordering::SeqCst), simenv::sim().steps_so_far());
            if now == last {
                idle += 1;
            } else {
                idle = 0;
                last = now;
            }
            if idle >= 60 {
                println!("HARNESS-ERROR stalled for 60 s (run counter {})", now.0);
                std::process::exit(2);
            }
        }
    });
    progress
}

/// Runs `count` seeds and writes the aggregate to `out` (+ side files).
fn worker(args: &[String]) -> i32 {
    let prop = arg(args, "--prop").expect("--prop");
    let tier = arg(args, "--tier").unwrap_or_else(|| "quick".into());
    let seed: u64 = arg(args, "--seed").and_then(|s| s.parse().ok()).unwrap_or(1);
    let start: u64 = arg(args, "--start").and_then(|s| s.parse().ok()).unwrap_or(0);
    let count: u64 = arg(args, "--count").and_then(|s| s.parse().ok()).unwrap_or(100);
    let out = arg(args, "--out").expect("--out");
    let deadline_ms: u64 = arg(args, "--deadline-ms").and_then(|s| s.parse().ok()).unwrap_or(u64::MAX);
    let max_viol: usize = arg(args, "--max-violations").and_then(|s| s.parse().ok()).unwrap_or(2);
    let record_below: u64 = arg(args, "--record-outcomes-below").and_then(|s| s.parse().ok()).unwrap_or(0);
    let mut outcome_fps: BTreeMap<String, u64> = BTreeMap::new();
    let thorough = tier == "thorough";
    ops::install_panic_hook();
    let _ = simenv::sim();
    let known = KnownFindings::load();

    let progress = start_watchdog();
    let t0 = std::time::Instant::now();
    let mut runs = 0u64;
    let mut nontrivial_fps: BTreeSet<u64> = BTreeSet::new();
    let mut acq_orders: BTreeSet<u64> = BTreeSet::new();
    let mut abstract_states: BTreeSet<u64> = BTreeSet::new();
    let mut fired = BTreeMap::new();
    let mut probes = BTreeMap::new();
    let mut cats = BTreeMap::new();
    let mut op_kinds = BTreeMap::new();
    let mut strategies: BTreeMap<String, u64> = BTreeMap::new();
    let mut counters: BTreeMap<String, u64> = BTreeMap::new();
    let mut sim_time_ns: u128 = 0;
    let mut max_steps = 0u64;
    let mut samples: Vec<Value> = vec![];
    let mut violations: Vec<Value> = vec![];
    let mut known_hits: BTreeMap<String, u64> = BTreeMap::new();
    let mut unlisted = 0usize;
    for index in start..start + count {
        if t0.elapsed().as_millis() as u64 > deadline_ms {
            break;
        }
        let rs = run_seed(seed, &prop, index);
        let plan = props::generate(&prop, rs, thorough);
        let rep = props::run_plan(&plan, false);
        runs += 1;
        progress.store(runs, std::sync::atomic::Ordering::SeqCst);
        if index < record_below {
            outcome_fps.insert(index.to_string(), rep.outcome_fp());
        }
        if rep.nontrivial {
            nontrivial_fps.insert(rep.fingerprint);
        }
        acq_orders.insert(rep.acq_order);
        abstract_states.extend(rep.abstract_states.iter().copied());
        add_map(&mut fired, &rep.fired);
        add_map(&mut probes, &rep.probes);
        add_map(&mut cats, &rep.outcome_cats);
        add_map(&mut op_kinds, &rep.op_kinds);
        *strategies.entry(plan.strategy.name()).or_insert(0) += 1;
        for (k, v) in [
            ("ops", rep.ops),
            ("relaxed_after_fault", rep.relaxed),
            ("planned_faults_not_fired", rep.planned_not_fired),
            ("scheduler_steps", rep.stats.steps),
            ("context_switches", rep.stats.context_switches),
            ("lock_acquisitions", rep.stats.lock_acquisitions),
            ("threads", plan.threads.len() as u64),
            ("runs_with_fault_fired", (!rep.fired.is_empty()) as u64),
            ("runs_fault_free", rep.fired.is_empty() as u64),
        ] {
            *counters.entry(k.to_string()).or_insert(0) += v;
        }
        sim_time_ns += rep.sim_time_ns;
        max_steps = max_steps.max(rep.stats.steps);
        if samples.len() < 2 && rep.nontrivial {
            samples.push(json!({
                "index": index,
                "run_seed": rs.to_string(),
                "plan": plan::plan_to_json(&plan),
                "schedule_prefix": rep.schedule.iter().take(40).collect::<Vec<_>>(),
                "outcomes": rep.lines.iter().take(24).collect::<Vec<_>>(),
                "fingerprint": format!("{:016x}", rep.fingerprint),
            }));
        }
        if let Some(v) = &rep.violation {
            if let Some(k) = known.matches(&prop, &v.class) {
                *known_hits.entry(k).or_insert(0) += 1;
                continue;
            }
            unlisted += 1;
            if violations.len() < max_viol {
                let sh = shrink::shrink(&plan, rep.schedule.clone(), v, 500);
                let name = format!("{}-{}-{}-{}.json", prop, profile_name(), seed, index);
                let path = format!("{}/replays/{name}", verif_dir());
                let _ = std::fs::create_dir_all(format!("{}/replays", verif_dir()));
                let doc = json!({
                    "property": prop,
                    "profile": profile_name(),
                    "verif_seed": seed,
                    "run_index": index,
                    "violation_class": sh.violation.class,
                    "violation_detail": sh.violation.detail,
                    "fingerprint": format!("{:016x}", sh.fingerprint),
                    "minimised": {
                        "from_ops": sh.from_ops, "to_ops": sh.plan.n_ops(),
                        "from_faults": sh.from_faults, "to_faults": sh.plan.n_faults(),
                        "candidates_tried": sh.candidates_tried,
                    },
                    "plan": plan::plan_to_json(&sh.plan),
                    "original_detail": v.detail,
                });
                let _ = std::fs::write(&path, serde_json::to_string_pretty(&doc).unwrap());
                // The minimised plan must reproduce in a FRESH process. If it
                // does not, the violation depends on state that earlier runs
                // of this worker left behind in the process (a static outside
                // the provider, say): fall back to a replay of this worker's
                // whole history up to the violating run, which is exact.
                let reproduced = std::env::current_exe()
                    .ok()
                    .and_then(|exe| {
                        std::process::Command::new(exe)
                            .args(["replay", &path])
                            .stdout(std::process::Stdio::null())
                            .stderr(std::process::Stdio::null())
                            .status()
                            .ok()
                    })
                    .and_then(|st| st.code())
                    == Some(1);
                if !reproduced {
                    let doc = json!({
                        "property": prop,
                        "profile": profile_name(),
                        "kind": "history",
                        "verif_seed": seed,
                        "tier": tier,
                        "start_index": start,
                        "run_index": index,
                        "violation_class": v.class,
                        "violation_detail": v.detail,
                        "note": "the minimised single-run plan did not reproduce in a fresh process: the violation depends on process state left by earlier runs; this file replays runs start_index..=run_index in one process",
                    });
                    let _ = std::fs::write(&path, serde_json::to_string_pretty(&doc).unwrap());
                }
                violations.push(json!({
                    "class": sh.violation.class, "detail": sh.violation.detail,
                    "replay": path, "index": index,
                }));
            }
        }
    }
    let wall = t0.elapsed().as_secs_f64();
    write_u64s(&format!("{out}.fp"), nontrivial_fps.iter().copied());
    write_u64s(&format!("{out}.acq"), acq_orders.iter().copied());
    write_u64s(&format!("{out}.abs"), abstract_states.iter().copied());
    let doc = json!({
        "prop": prop, "profile": profile_name(), "seed": seed, "start": start, "count": count,
        "runs": runs, "wall_s": wall,
        "fired": map_json(&fired), "probes": map_json(&probes), "outcome_categories": map_json(&cats), "op_kinds": map_json(&op_kinds),
        "strategies": map_json(&strategies), "counters": map_json(&counters),
        "sim_time_ns": sim_time_ns.to_string(), "max_steps_in_a_run": max_steps,
        "provider_reset_unavailable": props::RESET_UNAVAILABLE.load(std::sync::atomic::Ordering::Relaxed),
        "outcome_fps": map_json(&outcome_fps),
        "samples": samples, "violations": violations, "unlisted_violations": unlisted,
        "known_hits": map_json(&known_hits),
    });
    let mut f = std::fs::File::create(&out).expect("create out");
    let _ = f.write_all(serde_json::to_string(&doc).unwrap().as_bytes());
    0
}

fn replay(args: &[String]) -> i32 {
    let Some(path) = args.get(0) else {
        eprintln!("usage: tzsim replay <file>");
        return 2;
    };
    ops::install_panic_hook();
    let _ = simenv::sim();
    let text = match std::fs::read_to_string(path) {
        Ok(t) => t,
        Err(e) => {
            eprintln!("cannot read {path}: {e}");
            return 2;
        }
    };
    let _wd = start_watchdog();
    let doc: Value = serde_json::from_str(&text).expect("replay file is JSON");
    if doc["kind"].as_str() == Some("process-history") {
        // the same run as the first thing a process does, and after a history
        // of other runs in this process: the outcomes must be the same
        let prop = doc["property"].as_str().unwrap_or("C20").to_string();
        let seed = doc["verif_seed"].as_u64().unwrap_or(1);
        let tier = doc["tier"].as_str().unwrap_or("quick").to_string();
        let thorough = tier == "thorough";
        let index = doc["run_index"].as_u64().unwrap_or(0);
        let fresh = std::env::current_exe().ok().and_then(|exe| {
            std::process::Command::new(exe)
                .args(["outcome-fp", "--prop", &prop, "--tier", &tier, "--seed", &seed.to_string(), "--index", &index.to_string()])
                .output()
                .ok()
        });
        let fresh_fp = fresh
            .map(|o| String::from_utf8_lossy(&o.stdout).trim().to_string())
            .unwrap_or_default();
        let mut after = 0u64;
        for i in 0..=index {
            let plan = props::generate(&prop, run_seed(seed, &prop, i), thorough);
            let rep = props::run_plan(&plan, false);
            if i == index {
                after = rep.outcome_fp();
                for l in &rep.lines {
                    println!("  {l}");
                }
            }
        }
        println!("outcomes of run {index} as the first run of a process: {fresh_fp}");
        println!("outcomes of run {index} after runs 0..{index} in one process: {after:016x}");
        return if fresh_fp != format!("{after:016x}") {
            println!("class: depends-on-process-history");
            println!("VIOLATION property={prop} replay={path}");
            1
        } else {
            println!("not reproduced: the outcomes are identical");
            0
        };
    }
    if doc["kind"].as_str() == Some("history") {
        // re-execute a worker's history of runs in one process
        let prop = doc["property"].as_str().unwrap_or("C20").to_string();
        let seed = doc["verif_seed"].as_u64().unwrap_or(1);
        let thorough = doc["tier"].as_str() == Some("thorough");
        let start = doc["start_index"].as_u64().unwrap_or(0);
        let last = doc["run_index"].as_u64().unwrap_or(0);
        let mut found = None;
        for index in start..=last {
            let plan = props::generate(&prop, run_seed(seed, &prop, index), thorough);
            let rep = props::run_plan(&plan, false);
            if index == last {
                for l in &rep.lines {
                    println!("  {l}");
                }
                found = rep.violation;
            }
        }
        return match found {
            Some(v) => {
                println!("class: {}", v.class);
                println!("detail: {}", v.detail);
                println!("VIOLATION property={prop} replay={path}");
                1
            }
            None => {
                println!("not reproduced: run {last} after runs {start}.. did not violate {prop}");
                0
            }
        };
    }
    let plan = plan::plan_from_json(&doc["plan"]);
    if let Some(p) = doc["profile"].as_str() {
        if p != profile_name() {
            println!("note: recorded under profile {p}, replaying under {}", profile_name());
        }
    }
    let rep = props::run_plan(&plan, true);
    for l in &rep.lines {
        println!("  {l}");
    }
    if args.iter().any(|a| a == "--trace") {
        for l in &rep.trace {
            println!("    {l}");
        }
    }
    let want_class = doc["violation_class"].as_str().unwrap_or("");
    let want_fp = doc["fingerprint"].as_str().unwrap_or("");
    match rep.violation {
        Some(v) => {
            let fp = format!("{:016x}", rep.fingerprint);
            println!("class: {}", v.class);
            println!("detail: {}", v.detail);
            println!(
                "fingerprint: {fp} ({})",
                if fp == want_fp { "identical to the recorded run" } else { "differs from the recorded run" }
            );
            if v.class == want_class || want_class.is_empty() {
                println!("VIOLATION property={} replay={}", plan.prop, path);
                1
            } else {
                println!("a different violation class than recorded ({want_class})");
                println!("VIOLATION property={} replay={}", plan.prop, path);
                1
            }
        }
        None => {
            println!("not reproduced: the plan ran without violating {}", plan.prop);
            0
        }
    }
}

fn fingerprints(args: &[String]) -> i32 {
    let prop = arg(args, "--prop").expect("--prop");
    let seed: u64 = arg(args, "--seed").and_then(|s| s.parse().ok()).unwrap_or(1);
    let start: u64 = arg(args, "--start").and_then(|s| s.parse().ok()).unwrap_or(0);
    let count: u64 = arg(args, "--count").and_then(|s| s.parse().ok()).unwrap_or(100);
    let thorough = arg(args, "--tier").map(|t| t == "thorough").unwrap_or(false);
    ops::install_panic_hook();
    let _ = simenv::sim();
    let progress = start_watchdog();
    let stdout = std::io::stdout();
    let mut o = stdout.lock();
    for index in start..start + count {
        let rs = run_seed(seed, &prop, index);
        let plan = props::generate(&prop, rs, thorough);
        let rep = props::run_plan(&plan, false);
        progress.fetch_add(1, std::sync::atomic::Ordering::SeqCst);
        if arg(args, "--dump-index").and_then(|s| s.parse::<u64>().ok()) == Some(index) {
            for l in &rep.lines {
                let _ = writeln!(o, "    {l}");
            }
        }
        let _ = writeln!(
            o,
            "{index} {:016x} {} {}",
            rep.fingerprint,
            rep.stats.steps,
            rep.violation.map(|v| v.class).unwrap_or_else(|| "-".into())
        );
    }
    0
}

fn show(args: &[String]) -> i32 {
    let prop = arg(args, "--prop").expect("--prop");
    let seed: u64 = arg(args, "--seed").and_then(|s| s.parse().ok()).unwrap_or(1);
    let index: u64 = arg(args, "--index").and_then(|s| s.parse().ok()).unwrap_or(0);
    let thorough = arg(args, "--tier").map(|t| t == "thorough").unwrap_or(false);
    ops::install_panic_hook();
    let _ = simenv::sim();
    let rs = run_seed(seed, &prop, index);
    let plan = props::generate(&prop, rs, thorough);
    println!("{}", serde_json::to_string_pretty(&plan::plan_to_json(&plan)).unwrap());
    let rep = props::run_plan(&plan, true);
    for l in &rep.lines {
        println!("{l}");
    }
    if args.iter().any(|a| a == "--trace") {
        for l in &rep.trace {
            println!("  {l}");
        }
    }
    println!("stats: {:?}", rep.stats);
    println!("fired: {:?}", rep.fired);
    println!("probes: {:?}", rep.probes);
    println!("violation: {:?}", rep.violation);
    0
}

fn main() {
    let args: Vec<String> = std::env::args().skip(1).collect();
    let code = match args.first().map(|s| s.as_str()) {
        Some("worker") => worker(&args[1..]),
        Some("check") => master::check(&args[1..]),
        Some("replay") => replay(&args[1..]),
        Some("fingerprints") => fingerprints(&args[1..]),
        Some("show") => show(&args[1..]),
        Some("outcome-fp") => {
            let a = &args[1..];
            let prop = arg(a, "--prop").expect("--prop");
            let seed: u64 = arg(a, "--seed").and_then(|s| s.parse().ok()).unwrap_or(1);
            let index: u64 = arg(a, "--index").and_then(|s| s.parse().ok()).unwrap_or(0);
            let thorough = arg(a, "--tier").map(|t| t == "thorough").unwrap_or(false);
            ops::install_panic_hook();
            let _ = simenv::sim();
            let _wd = start_watchdog();
            let plan = props::generate(&prop, run_seed(seed, &prop, index), thorough);
            let rep = props::run_plan(&plan, false);
            println!("{:016x}", rep.outcome_fp());
            0
        }
        Some("free") => {
            // free-threaded run (for Miri): tzsim free --seed S [--verbose]
            let seed: u64 = arg(&args, "--seed").and_then(|s| s.parse().ok()).unwrap_or(1);
            let bad = free::run(seed, args.iter().any(|a| a == "--verbose"));
            if bad > 0 {
                println!("FREE-THREADED-MISMATCH seed={seed} mismatches={bad}");
                1
            } else {
                println!("FREE-THREADED-OK seed={seed}");
                0
            }
        }
        _ => {
            eprintln!("usage: tzsim check|worker|replay|fingerprints|show …");
            2
        }
    };
    std::process::exit(code);
}
