//! The batch driver: fans a range of run indices out to worker processes of
//! one or more build profiles, merges what they measured, prints the verdict
//! lines and writes the evidence file.

use crate::{arg, verif_dir, KnownFindings};
use serde_json::{json, Value};
use std::collections::{BTreeMap, BTreeSet};
use std::process::{Command, Stdio};

fn read_u64s(path: &str, into: &mut BTreeSet<u64>) {
    if let Ok(b) = std::fs::read(path) {
        for c in b.chunks_exact(8) {
            let mut x = [0u8; 8];
            x.copy_from_slice(c);
            into.insert(u64::from_le_bytes(x));
        }
    }
}

fn merge_map(dst: &mut BTreeMap<String, u64>, v: &Value) {
    if let Some(o) = v.as_object() {
        for (k, x) in o {
            *dst.entry(k.clone()).or_insert(0) += x.as_u64().unwrap_or(0);
        }
    }
}

fn to_json(m: &BTreeMap<String, u64>) -> Value {
    Value::Object(m.iter().map(|(k, v)| (k.clone(), json!(v))).collect())
}

struct PropInfo {
    rule: &'static str,
    assumptions: Vec<&'static str>,
}

fn prop_info(prop: &str) -> PropInfo {
    let common = vec![
        "sampling, not proof: a clean batch is evidence only for the runs explored",
        "the simulated disk is an in-memory image of this machine's /usr/share/zoneinfo taken at process start; only the unix branch of FsTzdbProvider::get is exercised",
        "threads are serialised by the baton: data races are outside what this engine can see (C20's thorough tier adds Miri for that)",
        "code that takes locks, reads files or reads clocks without going through the cfg(temporal_verif) seams is invisible to the simulator",
    ];
    match prop {
        "C20" => PropInfo {
            rule: "one evaluation = one simulated run: 1-4 (thorough: 1-6) caller threads x 3-10 convenience-API calls on the process-wide provider, generated from hash(VERIF_SEED, property, index); scheduler strategy, zone set, workload mix, pre-warmed zones, read-yield granularity and fault subset vary per run. Oracle: every call equals the same call executed alone on a cold provider over the pristine disk. A run is non-trivial if a fault fired (F1-F5, F7) or at least one lock acquisition was contended; distinct = distinct fingerprint (hash of the full event log + every outcome).",
            assumptions: common,
        },
        "C15" => PropInfo {
            rule: "one evaluation = one single-threaded history of 10-60 (thorough: 10-120) provider queries and provider-taking operations against ONE long-lived FsTzdbProvider over the simulated disk with injected F1-F5 faults and provider restarts; each answer is compared with the answer of a brand-new provider over the pristine disk. Non-trivial = at least one query was served from the cache or a fault fired; distinct = distinct hash of (operations, outcomes).",
            assumptions: {
                let mut c = common.clone();
                c.push("decides only the history/fault half of C15 (answers independent of earlier queries and of failed reads); whether the answers are what the TZif data specify is not decided here (pure function of file bytes and query)");
                c
            },
        },
        "C19" => PropInfo {
            rule: "one evaluation = one single-threaded sequence of 8-38 (thorough: 8-68) convenience-API calls (all 37 ZonedDateTime wrappers incl. Display, Duration round/compare/total, Instant/PlainDateTime/RelativeTo wrappers, all six Now functions) on the process-wide provider in cold and warm states under a scripted clock and host zone; each is compared with its provider-taking twin on a fresh provider fed the identical readings. Non-trivial = at least two compared calls; distinct = distinct hash of (operations, outcomes).",
            assumptions: {
                let mut c = common.clone();
                c.push("decides only the compiled-data half of C19; the FFI crate has no seam and is not simulated");
                c
            },
        },
        _ => PropInfo {
            rule: "one evaluation = one simulated run of 1-3 threads x 2-8 calls (convenience API on the shared provider, and provider-taking core operations on an embedder provider that fails at its k-th call) with 1-4 injected faults (F1-F5 disk, F7 panic while holding the provider, F8 clock, F9 host zone, F10 provider failure). Oracle: a call that does not panic alone and fault-free must not panic under a fault. Non-trivial = at least one fault actually fired; distinct = distinct fingerprint.",
            assumptions: {
                let mut c = common.clone();
                c.push("decides only the fault dimension of C03; panics that also happen fault-free (argument dimension) are counted but deliberately not judged");
                c
            },
        },
    }
}

/// Scans /repo's convenience layer for `pub fn` items and maps them to the
/// operation kinds of the workload. Returns (functions found, functions for
/// which no operation was executed in this batch).
fn wrapper_census(op_kinds: &BTreeMap<String, u64>) -> (Vec<String>, Vec<String>) {
    let files = [
        ("src/builtins/compiled/zoneddatetime.rs", "zdt."),
        ("src/builtins/compiled/duration.rs", "duration."),
        ("src/builtins/compiled/instant.rs", "instant."),
        ("src/builtins/compiled/plain_date_time.rs", "pdt."),
        ("src/builtins/compiled/mod.rs", "relative_to."),
        ("src/builtins/compiled/now.rs", "now."),
    ];
    let mut found = vec![];
    for (f, prefix) in files {
        let Ok(text) = std::fs::read_to_string(format!("/repo/{f}")) else { continue };
        // stop at the test module
        let text = text.split("\nmod tests").next().unwrap_or("").to_string();
        for line in text.lines() {
            let l = line.trim_start();
            if let Some(rest) = l.strip_prefix("pub fn ") {
                let name: String = rest.chars().take_while(|c| c.is_alphanumeric() || *c == '_').collect();
                found.push(format!("{prefix}{name}"));
            }
        }
        if f.ends_with("zoneddatetime.rs") && text.contains("impl core::fmt::Display for ZonedDateTime") {
            found.push("zdt.display".to_string());
        }
    }
    // `sys` functions of core/now.rs
    for n in ["now.instant", "now.time_zone_identifier", "now.zoneddatetime_iso"] {
        found.push(n.to_string());
    }
    found.sort();
    found.dedup();
    let missing = found.iter().filter(|k| op_kinds.get(*k).copied().unwrap_or(0) == 0).cloned().collect();
    (found, missing)
}

pub fn check(args: &[String]) -> i32 {
    let prop = arg(args, "--prop").expect("--prop");
    let tier = arg(args, "--tier").unwrap_or_else(|| "quick".into());
    let bins: Vec<String> =
        arg(args, "--bins").expect("--bins").split(',').map(|s| s.to_string()).collect();
    let workers: usize = arg(args, "--workers").and_then(|s| s.parse().ok()).unwrap_or(16);
    let seed: u64 = arg(args, "--seed").and_then(|s| s.parse().ok()).unwrap_or(1);
    let runs: u64 = arg(args, "--runs").and_then(|s| s.parse().ok()).unwrap_or(20_000);
    let deadline_ms: u64 = arg(args, "--deadline-ms").and_then(|s| s.parse().ok()).unwrap_or(120_000);
    let evidence_path =
        arg(args, "--evidence").unwrap_or_else(|| format!("{}/evidence/{prop}.json", verif_dir()));
    let stmt_points_built = arg(args, "--stmt-points").map(|s| s == "1").unwrap_or(false);
    let extra: Option<Value> = arg(args, "--extra-json")
        .and_then(|p| std::fs::read_to_string(p).ok())
        .and_then(|s| serde_json::from_str(&s).ok());
    let t0 = std::time::Instant::now();
    let tmp = format!("{}/sim/target/tmp/{}-{}-{}", verif_dir(), prop, tier, std::process::id());
    let _ = std::fs::remove_dir_all(&tmp);
    std::fs::create_dir_all(&tmp).expect("tmp dir");
    println!("tzsim check property={prop} tier={tier} VERIF_SEED={seed} runs_per_profile={runs} workers={workers} profiles={}", bins.len());

    // --- determinism re-check: the same indices in two fresh processes
    let mut det = vec![];
    for (b, bin) in bins.iter().enumerate() {
        let k = 150u64;
        let spawn = || {
            Command::new(bin)
                .args(["fingerprints", "--prop", &prop, "--tier", &tier, "--seed", &seed.to_string(), "--start", "0", "--count", &k.to_string()])
                .stdout(Stdio::piped())
                .stderr(Stdio::null())
                .spawn()
        };
        let (Ok(c1), Ok(c2)) = (spawn(), spawn()) else {
            println!("HARNESS-ERROR cannot start {bin}");
            return 2;
        };
        det.push((b, k, c1, c2));
    }

    // --- the batch
    // process-history oracle: the outcomes of runs 1..K computed inside a
    // long-lived worker (after earlier runs) are later compared with the same
    // runs executed as the first thing a fresh process does
    let history_k: u64 = arg(args, "--history-runs").and_then(|s| s.parse().ok()).unwrap_or(if tier == "thorough" { 400 } else { 100 });
    let per_bin_workers = (workers / bins.len()).max(1);
    let mut children = vec![];
    for (b, bin) in bins.iter().enumerate() {
        let chunk = runs.div_ceil(per_bin_workers as u64);
        for w in 0..per_bin_workers {
            let start = w as u64 * chunk;
            if start >= runs {
                break;
            }
            let count = chunk.min(runs - start);
            let out = format!("{tmp}/w{b}_{w}.json");
            let child = Command::new(bin)
                .args([
                    "worker", "--prop", &prop, "--tier", &tier, "--seed", &seed.to_string(),
                    "--start", &start.to_string(), "--count", &count.to_string(), "--out", &out,
                    "--deadline-ms", &deadline_ms.to_string(),
                    "--record-outcomes-below", &history_k.to_string(),
                ])
                .stdout(Stdio::inherit())
                .stderr(Stdio::inherit())
                .spawn();
            match child {
                Ok(c) => children.push((out, c)),
                Err(e) => {
                    println!("HARNESS-ERROR cannot start {bin}: {e}");
                    return 2;
                }
            }
        }
    }
    let mut harness_error = false;
    // Bounded wait: nothing a worker does may hang the check for ever.
    let hard_deadline = t0 + std::time::Duration::from_millis(deadline_ms) + std::time::Duration::from_secs(120);
    loop {
        let mut all_done = true;
        for (_, _, c1, c2) in det.iter_mut() {
            all_done &= matches!(c1.try_wait(), Ok(Some(_))) & matches!(c2.try_wait(), Ok(Some(_)));
        }
        for (_, c) in children.iter_mut() {
            all_done &= matches!(c.try_wait(), Ok(Some(_)));
        }
        if all_done {
            break;
        }
        if std::time::Instant::now() > hard_deadline {
            println!("HARNESS-ERROR batch did not finish within its time limit; killing workers");
            for (_, _, c1, c2) in det.iter_mut() {
                let _ = c1.kill();
                let _ = c2.kill();
            }
            for (_, c) in children.iter_mut() {
                let _ = c.kill();
            }
            harness_error = true;
            break;
        }
        std::thread::sleep(std::time::Duration::from_millis(50));
    }
    let mut det_report = vec![];
    for (b, k, c1, c2) in det {
        let o1 = c1.wait_with_output();
        let o2 = c2.wait_with_output();
        match (o1, o2) {
            (Ok(a), Ok(bb)) if a.status.success() && bb.status.success() => {
                let same = a.stdout == bb.stdout && !a.stdout.is_empty();
                det_report.push(json!({"profile_index": b, "runs": k, "processes": 2, "identical_event_logs": same}));
                if !same {
                    println!("HARNESS-ERROR determinism re-check failed for {}", bins[b]);
                    harness_error = true;
                }
            }
            _ => {
                println!("HARNESS-ERROR determinism re-check could not run for {}", bins[b]);
                harness_error = true;
            }
        }
    }
    let mut docs = vec![];
    for (out, mut c) in children {
        match c.wait() {
            Ok(st) if st.success() => match std::fs::read_to_string(&out).ok().and_then(|s| serde_json::from_str::<Value>(&s).ok()) {
                Some(d) => docs.push((out, d)),
                None => {
                    println!("HARNESS-ERROR worker wrote no result: {out}");
                    harness_error = true;
                }
            },
            Ok(st) => {
                println!("HARNESS-ERROR worker exited with {st}");
                harness_error = true;
            }
            Err(e) => {
                println!("HARNESS-ERROR worker wait: {e}");
                harness_error = true;
            }
        }
    }
    // --- fresh-process phase: many tiny workers, so that many runs are the
    // FIRST thing that happens in their process (lazily initialised globals,
    // once-cells and "first caller wins" state outside the provider are only
    // exercised then; inside a long-lived worker the simulated restart does
    // not reach them). Indices come from a separate range.
    let fresh_procs: u64 = arg(args, "--fresh-processes")
        .and_then(|s| s.parse().ok())
        .unwrap_or(if tier == "thorough" { 2000 } else { 120 });
    let mut fresh_runs = 0u64;
    if !harness_error {
        let base = 1_000_000_000u64;
        let mut next = 0u64;
        let mut running: Vec<(String, std::process::Child)> = vec![];
        let total = fresh_procs * bins.len() as u64;
        while (next < total || !running.is_empty()) && !harness_error {
            while next < total && running.len() < workers {
                let bin = &bins[(next % bins.len() as u64) as usize];
                let nth = next / bins.len() as u64;
                // the first K-1 fresh processes of each profile re-run the
                // indices 1..K of the main range, one each; the others run
                // two new indices
                let (start, count) = if nth + 1 < history_k { (nth + 1, 1u64) } else { (base + nth * 2, 2u64) };
                let out = format!("{tmp}/f{next}.json");
                match Command::new(bin)
                    .args([
                        "worker", "--prop", &prop, "--tier", &tier, "--seed", &seed.to_string(),
                        "--start", &start.to_string(), "--count", &count.to_string(), "--out", &out,
                        "--deadline-ms", "60000", "--record-outcomes-below", &history_k.to_string(),
                    ])
                    .stdout(Stdio::inherit())
                    .stderr(Stdio::inherit())
                    .spawn()
                {
                    Ok(c) => running.push((out, c)),
                    Err(e) => {
                        println!("HARNESS-ERROR cannot start {bin}: {e}");
                        harness_error = true;
                    }
                }
                next += 1;
            }
            let mut i = 0;
            let mut progressed = false;
            while i < running.len() {
                match running[i].1.try_wait() {
                    Ok(Some(st)) => {
                        let (out, _) = running.remove(i);
                        progressed = true;
                        if st.success() {
                            match std::fs::read_to_string(&out).ok().and_then(|s| serde_json::from_str::<Value>(&s).ok()) {
                                Some(d) => {
                                    fresh_runs += d["runs"].as_u64().unwrap_or(0);
                                    docs.push((out, d));
                                }
                                None => {
                                    println!("HARNESS-ERROR worker wrote no result: {out}");
                                    harness_error = true;
                                }
                            }
                        } else {
                            println!("HARNESS-ERROR worker exited with {st}");
                            harness_error = true;
                        }
                    }
                    Ok(None) => i += 1,
                    Err(e) => {
                        println!("HARNESS-ERROR worker wait: {e}");
                        harness_error = true;
                        i += 1;
                    }
                }
            }
            if !progressed {
                std::thread::sleep(std::time::Duration::from_millis(5));
            }
            if std::time::Instant::now() > hard_deadline + std::time::Duration::from_secs(300) {
                println!("HARNESS-ERROR fresh-process phase did not finish in time");
                for (_, c) in running.iter_mut() {
                    let _ = c.kill();
                }
                harness_error = true;
            }
        }
    }
    if harness_error {
        let _ = std::fs::remove_dir_all(&tmp);
        return 2;
    }

    // --- merge
    let mut evaluations = 0u64;
    let mut fps = BTreeSet::new();
    let mut acq = BTreeSet::new();
    let mut abs = BTreeSet::new();
    let mut fired = BTreeMap::new();
    let mut probes = BTreeMap::new();
    let mut cats = BTreeMap::new();
    let mut op_kinds: BTreeMap<String, u64> = BTreeMap::new();
    let mut strategies = BTreeMap::new();
    let mut counters = BTreeMap::new();
    let mut known_hits = BTreeMap::new();
    let mut per_profile: BTreeMap<String, u64> = BTreeMap::new();
    let mut sim_time_ns: u128 = 0;
    let mut samples = vec![];
    let mut violations = vec![];
    let mut unlisted = 0u64;
    let mut worker_wall = 0f64;
    let mut max_steps = 0u64;
    let mut reset_unavailable = false;
    for (out, d) in &docs {
        let n = d["runs"].as_u64().unwrap_or(0);
        evaluations += n;
        *per_profile.entry(d["profile"].as_str().unwrap_or("?").to_string()).or_insert(0) += n;
        read_u64s(&format!("{out}.fp"), &mut fps);
        read_u64s(&format!("{out}.acq"), &mut acq);
        read_u64s(&format!("{out}.abs"), &mut abs);
        merge_map(&mut fired, &d["fired"]);
        merge_map(&mut probes, &d["probes"]);
        merge_map(&mut cats, &d["outcome_categories"]);
        merge_map(&mut op_kinds, &d["op_kinds"]);
        merge_map(&mut strategies, &d["strategies"]);
        merge_map(&mut counters, &d["counters"]);
        merge_map(&mut known_hits, &d["known_hits"]);
        sim_time_ns += d["sim_time_ns"].as_str().and_then(|s| s.parse::<u128>().ok()).unwrap_or(0);
        worker_wall += d["wall_s"].as_f64().unwrap_or(0.0);
        max_steps = max_steps.max(d["max_steps_in_a_run"].as_u64().unwrap_or(0));
        reset_unavailable |= d["provider_reset_unavailable"].as_bool().unwrap_or(false);
        unlisted += d["unlisted_violations"].as_u64().unwrap_or(0);
        if let Some(a) = d["samples"].as_array() {
            for s in a {
                if samples.len() < 3 {
                    let mut s = s.clone();
                    s["profile"] = d["profile"].clone();
                    samples.push(s);
                }
            }
        }
        if let Some(a) = d["violations"].as_array() {
            violations.extend(a.iter().cloned());
        }
    }
    // process-history oracle: per profile, index -> set of outcome hashes seen
    let mut by_profile: BTreeMap<String, BTreeMap<String, BTreeSet<u64>>> = BTreeMap::new();
    for (_, d) in &docs {
        let prof = d["profile"].as_str().unwrap_or("?").to_string();
        if let Some(o) = d["outcome_fps"].as_object() {
            for (k, v) in o {
                by_profile.entry(prof.clone()).or_default().entry(k.clone()).or_default().insert(v.as_u64().unwrap_or(0));
            }
        }
    }
    let mut history_compared = 0u64;
    let mut history_violations = vec![];
    if !reset_unavailable {
        for (prof, m) in &by_profile {
            for (idx, set) in m {
                if set.len() >= 1 {
                    history_compared += 1;
                }
                if set.len() > 1 {
                    history_violations.push((prof.clone(), idx.clone()));
                }
            }
        }
    }
    let known_ph = KnownFindings::load().matches(&prop, "depends-on-process-history");
    for (prof, idx) in history_violations.iter().take(3) {
        if known_ph.is_some() {
            continue;
        }
        let path = format!("{}/replays/{}-{}-{}-process-history-{}.json", verif_dir(), prop, prof, seed, idx);
        let _ = std::fs::create_dir_all(format!("{}/replays", verif_dir()));
        let doc = json!({
            "property": prop, "profile": prof, "kind": "process-history", "verif_seed": seed, "tier": tier,
            "run_index": idx.parse::<u64>().unwrap_or(0),
            "violation_class": "depends-on-process-history",
            "violation_detail": format!("the outcomes of run {idx} differ between a fresh process and a process that executed runs 0..{idx} before it: state outside the provider survives from call to call"),
        });
        let _ = std::fs::write(&path, serde_json::to_string_pretty(&doc).unwrap());
        violations.push(json!({"class": "depends-on-process-history", "detail": doc["violation_detail"], "replay": path, "index": idx}));
    }
    if let Some(k) = &known_ph {
        if !history_violations.is_empty() {
            *known_hits.entry(k.clone()).or_insert(0) += history_violations.len() as u64;
        }
    } else {
        unlisted += history_violations.len() as u64;
    }
    let _ = std::fs::remove_dir_all(&tmp);
    let wall = t0.elapsed().as_secs_f64();

    // --- verdict lines
    let known = KnownFindings::load();
    let _ = &known;
    for (k, n) in &known_hits {
        println!("KNOWN-FINDING: property={prop} {k} (met in {n} runs)");
    }
    for v in &violations {
        println!("  violation class: {}", v["class"].as_str().unwrap_or(""));
        println!("  {}", v["detail"].as_str().unwrap_or(""));
        println!("VIOLATION property={prop} replay={}", v["replay"].as_str().unwrap_or(""));
    }
    if violations.is_empty() && unlisted > 0 {
        println!("VIOLATION property={prop} replay=<none written>");
    }

    // --- evidence
    let info = prop_info(&prop);
    let hours = wall / 3600.0;
    let mut coverage = json!({
        "evaluations": evaluations,
        "distinct_nontrivial": fps.len(),
        "rule": info.rule,
        "samples": samples,
        "runs_per_profile": to_json(&per_profile),
        "simulated_runs_per_hour": (evaluations as f64 / hours).round(),
        "seeds_per_hour": (evaluations as f64 / hours).round(),
        "worker_cpu_seconds": worker_wall,
        "simulated_clock_time_covered_s": (sim_time_ns / 1_000_000_000).to_string(),
        "scheduler_steps": counters.get("scheduler_steps").copied().unwrap_or(0),
        "operations_executed": counters.get("ops").copied().unwrap_or(0),
        "faults_fired": to_json(&fired),
        "planned_faults_not_fired": counters.get("planned_faults_not_fired").copied().unwrap_or(0),
        "operations_relaxed_after_fault": counters.get("relaxed_after_fault").copied().unwrap_or(0),
        "runs_fault_free": counters.get("runs_fault_free").copied().unwrap_or(0),
        "runs_with_fault_fired": counters.get("runs_with_fault_fired").copied().unwrap_or(0),
        "probes": to_json(&probes),
        "outcome_categories": to_json(&cats),
        "scheduler_strategies": to_json(&strategies),
        "distinct_lock_acquisition_orders": acq.len(),
        "distinct_abstract_scheduler_states": abs.len(),
        "abstract_state_measure": "hash of (holder and reader count per lock, per-thread runnable/blocked/done, thread chosen next) at every scheduling decision",
        "determinism_recheck": det_report,
        "known_findings_met": to_json(&known_hits),
        "components_real": [
            "temporal_rs convenience wrappers (src/builtins/compiled/*)", "temporal_rs core (ZonedDateTime, Duration, Instant, PlainDateTime, Now, TimeZone)",
            "FsTzdbProvider and its cache", "tzif + combine TZif parser", "std::sync::Mutex poisoning (the shim wraps a real std mutex)",
            "sys.rs error mapping for clock and host zone"
        ],
        "components_stubbed": [
            "file system (in-memory image of /usr/share/zoneinfo)", "OS clock (scripted readings)", "iana_time_zone host lookup (scripted)",
            "thread scheduler (baton over real OS threads)", "std::sync::LazyLock (resettable shim with the same once-semantics)",
            "tzif::parse_tzif_file (six-line wrapper re-stated over Env::open)"
        ],
    });
    coverage["operations_per_kind"] = to_json(&op_kinds);
    coverage["process_history_oracle"] = json!({
        "runs_compared": history_compared,
        "differing": history_violations.len(),
        "what": "the outcomes of runs 1..K executed inside a long-lived worker process (after earlier runs) equal the outcomes of the same runs executed as the first thing a fresh process does",
        "skipped": reset_unavailable,
    });
    coverage["runs_in_fresh_processes"] = json!({
        "processes": fresh_procs * bins.len() as u64,
        "runs": fresh_runs,
        "why": "each of these worker processes executes two runs only, so the first of them is the first use of the library in its process (lazily initialised globals outside the provider)"
    });
    coverage["simulated_process_restart_available"] = json!(!reset_unavailable);
    if reset_unavailable {
        println!("note: the process-wide provider is not stored in a resettable LazyLock; runs start warm (no simulated process restart)");
    }
    coverage["bounded_liveness"] = json!({
        "longest_run_in_scheduler_steps": max_steps,
        "step_budget": "2000 x operations + 50000 (exceeding it is reported as livelock)",
        "statement": "every run finished, and after the last fault of a run every later operation equalled its reference"
    });
    coverage["statement_level_scheduling_points_built_in"] = json!(stmt_points_built);
    // Which convenience functions exist in the source tree right now, and
    // were all of them exercised?
    let (in_source, missing) = wrapper_census(&op_kinds);
    coverage["convenience_functions_in_source"] = json!(in_source);
    coverage["convenience_functions_not_exercised"] = json!(missing);
    if let Some(e) = extra {
        coverage["additional_engines"] = e;
    }
    let doc = json!({
        "property_id": prop,
        "tier": tier,
        "seed": seed,
        "level": "exploration",
        "coverage": coverage,
        "assumptions": info.assumptions,
        "wall_s": wall,
        "violations": unlisted,
    });
    let _ = std::fs::create_dir_all(format!("{}/evidence", verif_dir()));
    if let Err(e) = std::fs::write(&evidence_path, serde_json::to_string_pretty(&doc).unwrap()) {
        println!("HARNESS-ERROR cannot write evidence: {e}");
        return 2;
    }
    println!(
        "{prop} {tier}: {evaluations} runs ({} distinct non-trivial), {} faults fired, {:.1} s, {} unlisted violation(s)",
        fps.len(),
        fired.values().sum::<u64>(),
        wall,
        unlisted
    );
    if unlisted > 0 {
        1
    } else {
        0
    }
}
