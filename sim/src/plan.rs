//! A `Plan` is everything that decides one simulated run: operations per
//! thread, faults, scripted clock/host readings, pre-warmed zones, scheduler
//! strategy and (for replay) the schedule itself. Generated from one seed,
//! or read back from a replay file.

use crate::ops::Op;
use crate::simenv::{Fault, FaultKind, Strategy};
use serde_json::{json, Value};

#[derive(Clone, Debug, PartialEq)]
pub struct Plan {
    pub prop: String,
    pub seed: u64,
    pub threads: Vec<Vec<Op>>,
    /// Zones loaded into the shared provider before the threads start.
    pub prewarm: Vec<String>,
    pub strategy: Strategy,
    /// Yield at every n-th byte read (0 = never).
    pub read_yield: u32,
    /// Recorded scheduler choices (replay); `None` = draw from the PRNG.
    pub schedule: Option<Vec<u8>>,
    /// Use the statement-level scheduling points of the instrumented
    /// provider sources in this run.
    pub stmt_points: bool,
}

impl Plan {
    pub fn n_ops(&self) -> usize {
        self.threads.iter().map(|t| t.len()).sum()
    }
    pub fn n_faults(&self) -> usize {
        self.threads.iter().flatten().filter(|o| o.fault.is_some() || o.fail_at > 0).count()
    }
}

fn i128_to_json(v: i128) -> Value {
    Value::String(v.to_string())
}
fn json_to_i128(v: &Value) -> i128 {
    match v {
        Value::String(s) => s.parse().unwrap_or(0),
        Value::Number(n) => n.as_i64().unwrap_or(0) as i128,
        _ => 0,
    }
}

pub fn op_to_json(o: &Op) -> Value {
    let mut m = serde_json::Map::new();
    m.insert("kind".into(), json!(o.kind));
    m.insert("zone".into(), json!(o.zone));
    m.insert("ns".into(), i128_to_json(o.ns));
    if o.cal != 0 {
        m.insert("cal".into(), json!(o.cal));
    }
    if o.zone2 != o.zone {
        m.insert("zone2".into(), json!(o.zone2));
    }
    if o.ns2 != o.ns {
        m.insert("ns2".into(), i128_to_json(o.ns2));
    }
    if o.sel != 0 {
        m.insert("sel".into(), json!(o.sel));
    }
    if !o.clock.is_empty() {
        m.insert("clock".into(), Value::Array(o.clock.iter().map(|c| i128_to_json(*c)).collect()));
    }
    if o.host != "ok:UTC" {
        m.insert("host".into(), json!(o.host));
    }
    if let Some(f) = &o.fault {
        m.insert("fault".into(), json!({"kind": f.kind.name(), "at_permille": f.at_permille, "persist": f.persist}));
    }
    if o.fail_at > 0 {
        m.insert("fail_at".into(), json!(o.fail_at));
    }
    Value::Object(m)
}

pub fn op_from_json(v: &Value) -> Op {
    let kind = v["kind"].as_str().unwrap_or("").to_string();
    let zone = v["zone"].as_str().unwrap_or("UTC").to_string();
    let ns = json_to_i128(&v["ns"]);
    let mut o = Op::new(&kind, &zone, ns);
    o.cal = v["cal"].as_u64().unwrap_or(0) as u8;
    if let Some(z) = v["zone2"].as_str() {
        o.zone2 = z.to_string();
    }
    if !v["ns2"].is_null() {
        o.ns2 = json_to_i128(&v["ns2"]);
    }
    o.sel = v["sel"].as_u64().unwrap_or(0) as u32;
    if let Some(a) = v["clock"].as_array() {
        o.clock = a.iter().map(json_to_i128).collect();
    }
    if let Some(h) = v["host"].as_str() {
        o.host = h.to_string();
    }
    if let Some(k) = v["fault"]["kind"].as_str().and_then(FaultKind::from_name) {
        o.fault =
            Some(Fault {
                kind: k,
                at_permille: v["fault"]["at_permille"].as_u64().unwrap_or(0) as u32,
                persist: v["fault"]["persist"].as_bool().unwrap_or(false),
            });
    }
    o.fail_at = v["fail_at"].as_u64().unwrap_or(0) as u32;
    o
}

pub fn plan_to_json(p: &Plan) -> Value {
    json!({
        "prop": p.prop,
        "seed": p.seed.to_string(),
        "threads": p.threads.iter().map(|t| Value::Array(t.iter().map(op_to_json).collect())).collect::<Vec<_>>(),
        "prewarm": p.prewarm,
        "strategy": p.strategy.name(),
        "read_yield": p.read_yield,
        "schedule": match &p.schedule { Some(s) => json!(s), None => Value::Null },
        "stmt_points": p.stmt_points,
    })
}

pub fn plan_from_json(v: &Value) -> Plan {
    Plan {
        prop: v["prop"].as_str().unwrap_or("").to_string(),
        seed: v["seed"].as_str().and_then(|s| s.parse().ok()).unwrap_or(0),
        threads: v["threads"]
            .as_array()
            .map(|a| {
                a.iter()
                    .map(|t| t.as_array().map(|o| o.iter().map(op_from_json).collect()).unwrap_or_default())
                    .collect()
            })
            .unwrap_or_default(),
        prewarm: v["prewarm"]
            .as_array()
            .map(|a| a.iter().filter_map(|x| x.as_str().map(String::from)).collect())
            .unwrap_or_default(),
        strategy: Strategy::from_name(v["strategy"].as_str().unwrap_or("random")),
        read_yield: v["read_yield"].as_u64().unwrap_or(0) as u32,
        schedule: v["schedule"]
            .as_array()
            .map(|a| a.iter().map(|x| x.as_u64().unwrap_or(0) as u8).collect()),
        stmt_points: v["stmt_points"].as_bool().unwrap_or(false),
    }
}
