//! One simulated run per call: executes a `Plan` against the real library
//! and judges it with the property's oracle.

use crate::ops::{self, exec, ExecInfo, FailingProvider, Mode, Op, Outcome};
use crate::plan::Plan;
use crate::rng::Fnv;
use crate::simenv::{sim, RunStats, SchedConfig, Strategy};
use std::collections::BTreeMap;
use std::sync::{Arc, Mutex};
use temporal_rs::tzdb::FsTzdbProvider;

#[derive(Clone, Debug, PartialEq)]
pub struct Violation {
    /// Stable class: what kind of violation (used by the shrinker and by the
    /// known-findings file).
    pub class: String,
    pub detail: String,
}

#[derive(Default)]
pub struct RunReport {
    pub violation: Option<Violation>,
    pub fingerprint: u64,
    pub nontrivial: bool,
    pub schedule: Vec<u8>,
    pub stats: RunStats,
    pub acq_order: u64,
    pub abstract_states: Vec<u64>,
    /// fired faults, keyed "<fault>/<op family>"
    pub fired: BTreeMap<String, u64>,
    /// planned disk faults that did not fire (cache was warm, …)
    pub planned_not_fired: u64,
    pub probes: BTreeMap<String, u64>,
    pub ops: u64,
    pub relaxed: u64,
    pub outcome_cats: BTreeMap<String, u64>,
    /// executed operations per kind
    pub op_kinds: BTreeMap<String, u64>,
    /// simulated clock time covered by this run's scripted readings (ns)
    pub sim_time_ns: u128,
    /// lowest / highest scripted clock reading handed out in this run
    pub clock_lo: Option<i128>,
    pub clock_hi: Option<i128>,
    pub lines: Vec<String>,
    pub trace: Vec<String>,
}

impl RunReport {
    /// Hash of the operations' outcomes only (not of the event log): what a
    /// caller could observe of this run.
    pub fn outcome_fp(&self) -> u64 {
        let mut h = Fnv::new();
        for l in &self.lines {
            h.str(l);
        }
        h.str(self.violation.as_ref().map(|v| v.class.as_str()).unwrap_or("-"));
        h.0
    }
}

fn probe(r: &mut RunReport, k: &str, n: u64) {
    if n > 0 {
        *r.probes.entry(k.to_string()).or_insert(0) += n;
    }
}

pub fn reset_shared() {
    // SAFETY: called only between runs / between operations of the single
    // thread that uses the convenience API at that time.
    let could = unsafe { temporal_rs::verif_hooks::reset_shared_provider() };
    if !could {
        // the provider is not stored in a resettable LazyLock any more: the
        // checks still run, but every run and every reference starts from
        // whatever state the previous one left ("warm-start mode")
        RESET_UNAVAILABLE.store(true, std::sync::atomic::Ordering::Relaxed);
    }
}

pub static RESET_UNAVAILABLE: std::sync::atomic::AtomicBool = std::sync::atomic::AtomicBool::new(false);

fn fresh() -> FsTzdbProvider {
    FsTzdbProvider::default()
}

/// Solo, fault-free execution of the wrapper: the reference for C20.
fn solo_wrapper(op: &Op) -> ExecInfo {
    reset_shared();
    if RESET_UNAVAILABLE.load(std::sync::atomic::Ordering::Relaxed) {
        // No simulated restart: "the same call alone in a fresh process" can
        // only be had from the provider-taking twin on a brand-new provider
        // (the wrapper on the shared provider would inherit whatever earlier
        // runs left behind, poison included).
        return exec(op, Mode::Twin(&fresh()), false);
    }
    exec::<FsTzdbProvider>(op, Mode::Wrapper, false)
}

fn record_fault(r: &mut RunReport, op: &Op, info: &ExecInfo) {
    if let Some(f) = &op.fault {
        if info.fault_fired {
            *r.fired.entry(format!("{}/{}", f.kind.name(), op.family())).or_insert(0) += 1;
        } else {
            r.planned_not_fired += 1;
        }
        if info.persist_hits > 0 {
            *r.fired.entry(format!("{}-still-there-on-reopen/{}", f.kind.name(), op.family())).or_insert(0) += 1;
        }
    }
    if op.kind == ops::INJECT_PANIC {
        *r.fired.entry("F7-panic-holding-provider/inject".into()).or_insert(0) += 1;
    }
    if op.kind.starts_with("now.") {
        if info.clock_reads > 0 {
            if let Some(c) = op.clock.first() {
                if *c < 0 {
                    *r.fired.entry("F8-clock-before-epoch/now".into()).or_insert(0) += 1;
                } else if *c > 8_640_000_000_000_000_000_000 {
                    *r.fired.entry("F8-clock-beyond-range/now".into()).or_insert(0) += 1;
                }
            }
            for c in &op.clock[..info.clock_reads.min(op.clock.len())] {
                r.clock_lo = Some(r.clock_lo.map_or(*c, |x: i128| x.min(*c)));
                r.clock_hi = Some(r.clock_hi.map_or(*c, |x: i128| x.max(*c)));
            }
        }
        if info.host_reads > 0 {
            if op.host == "err" {
                *r.fired.entry("F9-host-zone-error/now".into()).or_insert(0) += 1;
            } else if op.host == "ok:No/Such_Zone" {
                *r.fired.entry("F9-host-zone-unknown/now".into()).or_insert(0) += 1;
            }
        }
    }
}

/// The per-operation comparison shared by C20 and C15: exact, except that an
/// operation in whose window a disk fault fired may fail with a generic error
/// (never with a different value), unless the fault kind is not an error.
fn judge(op: &Op, got: &ExecInfo, reference: &Outcome) -> Result<bool, (String, String)> {
    if got.outcome.same(reference) {
        return Ok(false);
    }
    if let Some(f) = &op.fault {
        // any error kind is accepted: C15/C20 do not prescribe how a failed
        // read is reported (a missing file could as well be a RangeError
        // "unknown time zone"), only that it is not a wrong value
        if got.fault_fired && f.kind.may_fail() && matches!(got.outcome, Outcome::Err(..)) {
            return Ok(true);
        }
    }
    Err((
        format!("{}->{}", reference.category(), got.outcome.category()),
        format!("{}: expected {} got {}", op.show(), reference.show(), got.outcome.show()),
    ))
}

fn finish_fp(r: &mut RunReport, sched_fp: u64, outcomes: &[Vec<ExecInfo>]) {
    let mut h = Fnv::new();
    h.u64(sched_fp);
    for t in outcomes {
        for i in t {
            h.str(&i.outcome.show());
            h.u64(i.fault_fired as u64);
            *r.outcome_cats
                .entry(match &i.outcome {
                    Outcome::Ok(_) => "value".to_string(),
                    Outcome::Err(k, _) => format!("error:{k}"),
                    Outcome::Panic(_) => "panic".to_string(),
                })
                .or_insert(0) += 1;
        }
        h.u64(0xfeed);
    }
    r.fingerprint = h.0;
    // simulated time covered = span of the clock readings the run consumed
    if let (Some(lo), Some(hi)) = (r.clock_lo, r.clock_hi) {
        r.sim_time_ns = (hi - lo) as u128;
    }
}

// ------------------------------------------------------------------ C20

/// Runs the plan's threads under the baton against the shared provider.
fn run_concurrent(plan: &Plan, keep_trace: bool) -> (crate::simenv::SchedResult, Vec<Vec<ExecInfo>>) {
    reset_shared();
    for z in &plan.prewarm {
        // earlier use of the process-wide provider; whatever happens here
        // (error, panic) is history, not an observation
        let _ = std::panic::catch_unwind(|| {
            let _ = temporal_rs::verif_hooks::with_shared_provider(|p| p.get(z).map(|_| ()));
        });
    }
    let results: Arc<Mutex<Vec<Vec<ExecInfo>>>> =
        Arc::new(Mutex::new(plan.threads.iter().map(|_| vec![]).collect()));
    let mut bodies: Vec<Box<dyn FnOnce() + Send + 'static>> = vec![];
    for (t, ops_) in plan.threads.iter().enumerate() {
        let ops_ = ops_.clone();
        let results = results.clone();
        bodies.push(Box::new(move || {
            for (i, op) in ops_.iter().enumerate() {
                sim().yield_point("op", i as u64);
                let info = if op.fail_at > 0 {
                    let p = FailingProvider::new(op.fail_at);
                    let mut info = exec(op, Mode::Twin(&p), true);
                    info.fault_fired |= p.fired.get();
                    info
                } else {
                    exec::<FsTzdbProvider>(op, Mode::Wrapper, true)
                };
                results.lock().unwrap_or_else(|e| e.into_inner())[t].push(info);
            }
        }));
    }
    let n_ops = plan.n_ops() as u64;
    let cfg = SchedConfig {
        threads: plan.threads.len(),
        seed: plan.seed,
        strategy: plan.strategy,
        max_steps: 2_000 * n_ops
            + 50_000
            + match plan.strategy {
                Strategy::Stall(e) => 3 * 10u64.pow(e as u32),
                _ => 0,
            },
        replay: plan.schedule.clone(),
        read_yield: plan.read_yield,
        keep_trace,
        expected_steps: 8 * n_ops + 4,
        stmt_points: plan.stmt_points,
    };
    let sr = sim().run_threads(cfg, bodies);
    let outcomes = std::mem::take(&mut *results.lock().unwrap_or_else(|e| e.into_inner()));
    (sr, outcomes)
}

fn sched_probes(r: &mut RunReport, s: &RunStats) {
    probe(r, "lock-contended", s.lock_contended);
    probe(r, "panic-unwind-released-lock", s.unlock_unwinding);
    probe(r, "panic-with-waiters", s.unlock_unwinding_with_waiters);
    probe(r, "lock-acquired-poisoned", s.poisoned_acquisitions);
    probe(r, "lazy-init-raced", s.lazy_raced);
    probe(r, "lazy-cold-force", s.lazy_cold_forces);
    probe(r, "trylock-contended", s.trylock_contended);
    probe(r, "context-switch", s.context_switches);
    probe(r, "clock-read-under-baton", s.clock_reads);
    probe(r, "host-zone-read-under-baton", s.host_reads);
    probe(r, "file-open-under-baton", s.opens);
    probe(r, "statement-point-yield", s.stmt_point_yields);
    probe(r, "condvar-wait", s.cv_waits);
    probe(r, "condvar-notify", s.cv_notifies);
}

pub fn run_c20(plan: &Plan, keep_trace: bool) -> RunReport {
    let mut r = RunReport::default();
    let (sr, outcomes) = run_concurrent(plan, keep_trace);
    r.schedule = sr.choices.clone();
    r.stats = sr.stats.clone();
    r.acq_order = sr.acq_order;
    r.abstract_states = sr.abstract_states.clone();
    r.trace = sr.trace.clone();
    sched_probes(&mut r, &sr.stats);
    probe(&mut r, "prewarmed-zones", plan.prewarm.len() as u64);
    if let Some(why) = &sr.aborted {
        r.violation = Some(Violation {
            class: why.clone(),
            detail: format!("run aborted: {why} after {} steps", sr.stats.steps),
        });
        // After an abort the threads unwind concurrently, outside the baton:
        // which of their operations still complete is not decided by the
        // schedule, so the fingerprint is the event log up to the abort only.
        let _ = &outcomes;
        finish_fp(&mut r, sr.fingerprint, &[]);
        r.nontrivial = true;
        reset_shared();
        return r;
    }
    let mut any_fault = false;
    let mut failing_before = false;
    for (t, ops_) in plan.threads.iter().enumerate() {
        for (i, op) in ops_.iter().enumerate() {
            let Some(got) = outcomes[t].get(i) else { continue };
            r.ops += 1;
            *r.op_kinds.entry(op.kind.clone()).or_insert(0) += 1;
            record_fault(&mut r, op, got);
            any_fault |= got.fault_fired || op.kind == ops::INJECT_PANIC;
            let reference = solo_wrapper(op).outcome;
            if failing_before && matches!(got.outcome, Outcome::Ok(_)) {
                probe(&mut r, "value-after-failed-call", 1);
            }
            if !matches!(got.outcome, Outcome::Ok(_)) {
                failing_before = true;
            }
            if got.outcome.is_panic() {
                probe(&mut r, "natural-or-injected-panic", 1);
            }
            let line = format!("t{t}.{i} {} => {}", op.show(), got.outcome.show());
            r.lines.push(line);
            match judge(op, got, &reference) {
                Ok(relaxed) => {
                    if relaxed {
                        r.relaxed += 1;
                    }
                }
                Err((cat, detail)) => {
                    if r.violation.is_none() {
                        r.violation = Some(Violation {
                            class: format!("differs-from-solo:{cat}"),
                            detail: format!("thread {t} op {i}: {detail}"),
                        });
                    }
                }
            }
        }
    }
    r.nontrivial = any_fault || sr.stats.lock_contended > 0;
    finish_fp(&mut r, sr.fingerprint, &outcomes);
    reset_shared();
    r
}

// ------------------------------------------------------------------ C03

pub fn run_c03(plan: &Plan, keep_trace: bool) -> RunReport {
    let mut r = RunReport::default();
    let (sr, outcomes) = run_concurrent(plan, keep_trace);
    r.schedule = sr.choices.clone();
    r.stats = sr.stats.clone();
    r.acq_order = sr.acq_order;
    r.abstract_states = sr.abstract_states.clone();
    r.trace = sr.trace.clone();
    sched_probes(&mut r, &sr.stats);
    // Deadlocks are C20's business; an aborted run decides nothing here.
    if sr.aborted.is_some() {
        probe(&mut r, "aborted-run-ignored", 1);
        let _ = &outcomes;
        finish_fp(&mut r, sr.fingerprint, &[]);
        reset_shared();
        return r;
    }
    let mut any_fault = false;
    for (t, ops_) in plan.threads.iter().enumerate() {
        for (i, op) in ops_.iter().enumerate() {
            let Some(got) = outcomes[t].get(i) else { continue };
            r.ops += 1;
            *r.op_kinds.entry(op.kind.clone()).or_insert(0) += 1;
            record_fault(&mut r, op, got);
            if op.fail_at > 0 && got.fault_fired {
                *r.fired.entry(format!("F10-provider-call-fails/{}", op.family())).or_insert(0) += 1;
            }
            let world_fault = crate::gen::Gen::is_world_fault(op);
            let poisoned_env = sr.stats.unlock_unwinding > 0;
            any_fault |= got.fault_fired || world_fault || poisoned_env;
            r.lines.push(format!("t{t}.{i} {} => {}", op.show(), got.outcome.show()));
            if !got.outcome.is_panic() {
                continue;
            }
            // Would it panic alone, with no fault and a sane world?
            let mut calm = op.clone();
            calm.fault = None;
            calm.fail_at = 0;
            if calm.kind.starts_with("now.") {
                // only the *faulty* part of the world is replaced: a valid
                // reading far in the future is an input, not a fault
                let bad_clock = calm
                    .clock
                    .first()
                    .map(|c| *c < 0 || *c > 8_640_000_000_000_000_000_000)
                    .unwrap_or(false);
                if bad_clock {
                    calm.clock = vec![1_700_000_000_123_456_789];
                }
                if crate::gen::Gen::is_world_fault(&calm) {
                    calm.host = "ok:UTC".into();
                }
            }
            let reference = if op.fail_at > 0 {
                exec(&calm, Mode::Twin(&fresh()), false).outcome
            } else {
                solo_wrapper(&calm).outcome
            };
            if reference.is_panic() {
                probe(&mut r, "natural-panic-not-judged", 1);
                continue;
            }
            if r.violation.is_none() {
                let Outcome::Panic(class) = &got.outcome else { unreachable!() };
                r.violation = Some(Violation {
                    class: format!("panic-under-fault:{}:{}", op.kind, class),
                    detail: format!(
                        "thread {t} op {i}: {} panics under an injected fault ({}) but returns {} alone",
                        op.show(),
                        class,
                        reference.show()
                    ),
                });
            }
        }
    }
    r.nontrivial = any_fault;
    finish_fp(&mut r, sr.fingerprint, &outcomes);
    reset_shared();
    r
}

// ------------------------------------------------------------------ C15

pub fn run_c15(plan: &Plan) -> RunReport {
    let mut r = RunReport::default();
    let mut long_lived = fresh();
    let mut seen: Vec<String> = vec![];
    let mut infos = vec![];
    let mut any_fault = false;
    let mut cache_hit = false;
    let ops_ = plan.threads.first().cloned().unwrap_or_default();
    for (i, op) in ops_.iter().enumerate() {
        if op.kind == "restart" {
            long_lived = fresh();
            seen.clear();
            probe(&mut r, "restart-between-operations", 1);
            continue;
        }
        r.ops += 1;
        *r.op_kinds.entry(op.kind.clone()).or_insert(0) += 1;
        let got = exec(op, Mode::Twin(&long_lived), true);
        let reference = exec(op, Mode::Twin(&fresh()), false).outcome;
        record_fault(&mut r, op, &got);
        any_fault |= got.fault_fired;
        if got.opens == 0 && seen.contains(&op.zone) && sim().image.zone(&op.zone).is_some() {
            cache_hit = true;
            probe(&mut r, "served-from-cache", 1);
        }
        if got.fault_fired && seen.contains(&op.zone) {
            probe(&mut r, "fault-on-reload-after-failure", 1);
        }
        if got.opens > 0 && op.fault.is_some() && got.fault_fired {
            probe(&mut r, "fault-on-cold-cache", 1);
        }
        if !seen.contains(&op.zone) {
            seen.push(op.zone.clone());
        }
        r.lines.push(format!("{i} {} => {}", op.show(), got.outcome.show()));
        match judge(op, &got, &reference) {
            Ok(relaxed) => {
                if relaxed {
                    r.relaxed += 1;
                }
            }
            Err((cat, detail)) => {
                if r.violation.is_none() {
                    r.violation = Some(Violation {
                        class: format!("history-dependent:{cat}"),
                        detail: format!("query {i}: {detail}"),
                    });
                }
            }
        }
        infos.push(got);
    }
    r.nontrivial = any_fault || cache_hit;
    let mut h = Fnv::new();
    for o in &ops_ {
        h.str(&o.show());
    }
    let fp = h.0;
    finish_fp(&mut r, fp, &[infos]);
    r
}

// ------------------------------------------------------------------ C19

pub fn run_c19(plan: &Plan) -> RunReport {
    let mut r = RunReport::default();
    reset_shared();
    let mut infos = vec![];
    let ops_ = plan.threads.first().cloned().unwrap_or_default();
    let mut warm: Vec<String> = vec![];
    for (i, op) in ops_.iter().enumerate() {
        if op.kind == "restart" {
            reset_shared();
            warm.clear();
            probe(&mut r, "restart-between-operations", 1);
            continue;
        }
        r.ops += 1;
        *r.op_kinds.entry(op.kind.clone()).or_insert(0) += 1;
        let got = exec::<FsTzdbProvider>(op, Mode::Wrapper, false);
        let twin = exec(op, Mode::Twin(&fresh()), false).outcome;
        record_fault(&mut r, op, &got);
        if warm.contains(&op.zone) {
            probe(&mut r, "wrapper-on-warm-provider", 1);
        } else {
            probe(&mut r, "wrapper-on-cold-provider", 1);
            warm.push(op.zone.clone());
        }
        r.lines.push(format!("{i} {} => {} | twin {}", op.show(), got.outcome.show(), twin.show()));
        if !got.outcome.same(&twin) && r.violation.is_none() {
            r.violation = Some(Violation {
                class: format!("wrapper-differs-from-twin:{}:{}->{}", op.kind, twin.category(), got.outcome.category()),
                detail: format!(
                    "op {i}: {} wrapper returned {} but the provider-taking twin returned {}",
                    op.show(),
                    got.outcome.show(),
                    twin.show()
                ),
            });
        }
        // C19 is about wiring, not about poisoning (C20): a panicking call
        // must not leak into the next comparison.
        if got.outcome.is_panic() {
            reset_shared();
            warm.clear();
        }
        infos.push(got);
    }
    r.nontrivial = r.ops >= 2;
    let mut h = Fnv::new();
    for o in &ops_ {
        h.str(&o.show());
    }
    let fp = h.0;
    finish_fp(&mut r, fp, &[infos]);
    reset_shared();
    r
}

pub fn run_plan(plan: &Plan, keep_trace: bool) -> RunReport {
    match plan.prop.as_str() {
        "C20" => run_c20(plan, keep_trace),
        "C03" => run_c03(plan, keep_trace),
        "C15" => run_c15(plan),
        "C19" => run_c19(plan),
        other => panic!("unknown property {other}"),
    }
}

pub fn generate(prop: &str, seed: u64, thorough: bool) -> Plan {
    let mut g = crate::gen::Gen::new(seed, &sim().image);
    g.thorough = thorough;
    match prop {
        "C20" => g.plan_c20(seed, thorough),
        "C03" => g.plan_c03(seed, thorough),
        "C15" => g.plan_c15(seed, thorough),
        "C19" => g.plan_c19(seed, thorough),
        other => panic!("unknown property {other}"),
    }
}

#[allow(dead_code)]
pub fn strategy_default() -> Strategy {
    Strategy::Random
}
