//! The simulator: a baton scheduler over real OS threads, the simulated disk,
//! the scripted clock / host zone, and the fault injector — all behind the
//! `temporal_rs::verif_hooks::Env` seam.
//!
//! Exactly one registered thread runs at any time. At every intercepted point
//! the running thread asks the scheduler who goes next; the answer comes from
//! the run's PRNG (generation) or from a recorded schedule (replay).

use crate::disk::Image;
use crate::rng::{Fnv, Rng};
use std::cell::RefCell;
use std::collections::BTreeMap;
use std::io::{self, Read};
use std::path::Path;
use std::sync::{Arc, Condvar, Mutex, OnceLock};
use std::time::{Duration, UNIX_EPOCH};
use temporal_rs::verif_hooks::Env;

// ---------------------------------------------------------------- faults

#[derive(Clone, Copy, Debug, PartialEq, Eq, PartialOrd, Ord)]
pub enum FaultKind {
    /// F1: the zone file is missing (ENOENT on open).
    Enoent,
    /// F2: read error (EIO) at a byte offset.
    Eio,
    /// F3: EINTR on a read.
    Eintr,
    /// F4: short reads.
    Short,
    /// F5: truncated file (early EOF).
    Trunc,
    /// F1b: permission denied on open (EACCES).
    Eacces,
    /// F2b: the path is a directory: open succeeds, every read fails (EISDIR).
    Eisdir,
}
pub const DISK_FAULTS: [FaultKind; 7] = [
    FaultKind::Enoent,
    FaultKind::Eio,
    FaultKind::Eintr,
    FaultKind::Short,
    FaultKind::Trunc,
    FaultKind::Eacces,
    FaultKind::Eisdir,
];

impl FaultKind {
    pub fn name(self) -> &'static str {
        match self {
            FaultKind::Enoent => "F1-enoent",
            FaultKind::Eio => "F2-eio",
            FaultKind::Eintr => "F3-eintr",
            FaultKind::Short => "F4-short-read",
            FaultKind::Trunc => "F5-truncated",
            FaultKind::Eacces => "F1b-eacces",
            FaultKind::Eisdir => "F2b-eisdir",
        }
    }
    pub fn from_name(s: &str) -> Option<Self> {
        DISK_FAULTS.iter().copied().find(|k| k.name() == s)
    }
    /// May the operation hit by this fault legally fail with a generic error?
    /// (Short reads are not errors: the result must be exact.)
    pub fn may_fail(self) -> bool {
        !matches!(self, FaultKind::Short)
    }
}

#[derive(Clone, Copy, Debug, PartialEq, Eq)]
pub struct Fault {
    pub kind: FaultKind,
    /// Position of the fault inside the file, in 1/1000 of the usable length.
    pub at_permille: u32,
    /// `false`: the fault hits the first open of the operation only (the
    /// environment heals before a retry). `true`: the file *stays* broken
    /// while the operation lasts — every further open of the same path in
    /// this operation meets the same fault (a truncated file on disk is still
    /// truncated when it is read again).
    pub persist: bool,
}

// ------------------------------------------------------- per-op context

/// What the environment looks like to the operation currently executing on
/// this thread. Set by `ops::exec`, read by the `Env` implementation.
#[derive(Default)]
pub struct OpCtx {
    pub fault: Option<Fault>,
    /// Scripted clock readings, nanoseconds relative to the Unix epoch.
    pub clock: Vec<i128>,
    pub clock_reads: usize,
    /// "ok:<name>" or "err".
    pub host: String,
    pub host_reads: usize,
    pub opens: u32,
    /// Path of the operation's first open (the file a persistent fault sits on).
    pub fault_path: Option<std::path::PathBuf>,
    pub fault_fired: bool,
    pub bytes_read: u64,
    /// Loop heads passed by this operation outside a scheduled run.
    pub loop_heads: u64,
    /// Opens after the first one that met the operation's persistent fault again.
    pub persist_hits: u32,
}

/// Budgets of ONE operation executed outside a scheduled run (references,
/// histories and twins run on the harness thread, where no step budget
/// applies). No operation of the library opens more than a handful of files
/// or passes more than a few thousand loop heads of the instrumented sources;
/// one that exceeds these budgets "loops without bound" for the purposes of
/// the checks and is ended by a panic, which the oracles see as a panic.
pub const OP_OPEN_BUDGET: u32 = 20_000;
pub const OP_LOOP_BUDGET: u64 = 50_000_000;

thread_local! {
    static TID: std::cell::Cell<usize> = const { std::cell::Cell::new(usize::MAX) };
    static CTX: RefCell<Option<OpCtx>> = const { RefCell::new(None) };
}

pub fn set_ctx(c: Option<OpCtx>) -> Option<OpCtx> {
    CTX.with(|x| std::mem::replace(&mut *x.borrow_mut(), c))
}
fn with_ctx<R>(f: impl FnOnce(&mut OpCtx) -> R) -> Option<R> {
    CTX.with(|x| x.borrow_mut().as_mut().map(f))
}
fn tid() -> Option<usize> {
    let t = TID.with(|t| t.get());
    if t == usize::MAX {
        None
    } else {
        Some(t)
    }
}

// ------------------------------------------------------------ scheduler

/// Payload of the panic used to unwind every thread of an aborted run.
pub struct SimAbort;

#[derive(Clone, Copy, Debug, PartialEq, Eq)]
pub enum Strategy {
    Random,
    /// Continue the running thread with probability `p`/16.
    Sticky(u8),
    /// PCT-style: fixed random priorities, `d` priority change points.
    Pct(u8),
    /// Operations are mostly atomic: a thread runs until its next operation
    /// boundary; at any other point it is pre-empted with probability 1/q, and
    /// a thread that resumes after a pre-emption is pre-empted again within
    /// its next few points with probability 1/3 each (two pre-emptions close
    /// together inside one operation: check-then-act and ABA windows).
    Burst(u8),
    /// A slow or stalled node: once in the run, a thread that has just
    /// acquired a lock is not scheduled for up to 10^exp steps (or until
    /// nobody else can run) — timeouts, spin budgets and "the holder must be
    /// dead" heuristics only show then. Otherwise like `Random`.
    Stall(u8),
}
impl Strategy {
    pub fn name(&self) -> String {
        match self {
            Strategy::Random => "random".into(),
            Strategy::Sticky(p) => format!("sticky{p}"),
            Strategy::Pct(d) => format!("pct{d}"),
            Strategy::Burst(q) => format!("burst{q}"),
            Strategy::Stall(e) => format!("stall{e}"),
        }
    }
    pub fn from_name(s: &str) -> Strategy {
        if let Some(p) = s.strip_prefix("sticky") {
            Strategy::Sticky(p.parse().unwrap_or(12))
        } else if let Some(d) = s.strip_prefix("pct") {
            Strategy::Pct(d.parse().unwrap_or(2))
        } else if let Some(q) = s.strip_prefix("burst") {
            Strategy::Burst(q.parse().unwrap_or(48))
        } else if let Some(e) = s.strip_prefix("stall") {
            Strategy::Stall(e.parse().unwrap_or(3))
        } else {
            Strategy::Random
        }
    }
}

#[derive(Clone, Copy, PartialEq, Eq, Debug)]
enum Status {
    Runnable,
    Blocked(usize),
    /// waiting on a condition variable (ordinal)
    Waiting(usize),
    Done,
}

#[derive(Default, Clone)]
struct LockState {
    excl: Option<usize>,
    shared: Vec<usize>,
}

#[derive(Default, Clone, Debug)]
pub struct RunStats {
    pub steps: u64,
    pub context_switches: u64,
    pub lock_acquisitions: u64,
    pub lock_contended: u64,
    pub trylock_contended: u64,
    pub poisoned_acquisitions: u64,
    pub unlock_unwinding: u64,
    pub unlock_unwinding_with_waiters: u64,
    pub lazy_forces: u64,
    pub lazy_cold_forces: u64,
    pub lazy_raced: u64,
    pub opens: u64,
    pub clock_reads: u64,
    pub host_reads: u64,
    pub max_waiters: u64,
    pub stmt_point_yields: u64,
    pub cv_waits: u64,
    pub cv_notifies: u64,
}

struct St {
    active: bool,
    aborted: Option<String>,
    current: usize,
    status: Vec<Status>,
    locks: Vec<LockState>,
    lock_ids: Vec<usize>,
    lazy_ids: Vec<usize>,
    lazy_cold_seen: Vec<Vec<usize>>,
    cv_ids: Vec<usize>,
    /// per condition variable: (waiting thread, already notified?)
    cv_waiters: Vec<Vec<(usize, bool)>>,
    rng: Rng,
    strategy: Strategy,
    prio: Vec<u32>,
    change_points: Vec<u64>,
    boost: Vec<u8>,
    preempted: Vec<bool>,
    /// fairness: how many times in a row the same thread was chosen
    streak: (usize, u32),
    /// Stall strategy: (victim, step until which it is not scheduled)
    stalled: Option<(usize, u64)>,
    stall_used: bool,
    stmt_points: bool,
    max_steps: u64,
    replay: Option<Vec<u8>>,
    choices: Vec<u8>,
    fp: Fnv,
    acq_order: Fnv,
    abstract_states: std::collections::BTreeSet<u64>,
    stats: RunStats,
    trace: Vec<String>,
    keep_trace: bool,
}

pub struct Sim {
    pub image: Image,
    /// Which OS thread holds which shimmed lock exclusively — kept for every
    /// thread, registered or not, so that a thread that re-locks what it holds
    /// is reported instead of really deadlocking on the std mutex inside.
    holders: Mutex<BTreeMap<usize, std::thread::ThreadId>>,
    st: Mutex<St>,
    cv: Condvar,
    /// Yield at every n-th byte read while a run is active (0 = never).
    read_yield: std::sync::atomic::AtomicU32,
}

static SIM: OnceLock<&'static Sim> = OnceLock::new();

static SUBSET: OnceLock<Vec<&'static str>> = OnceLock::new();

/// Must be called before the first `sim()`: restrict the disk image to a few
/// zones (Miri mode).
pub fn use_subset(ids: Vec<&'static str>) {
    let _ = SUBSET.set(ids);
}

pub fn sim() -> &'static Sim {
    SIM.get_or_init(|| {
        let s: &'static Sim = Box::leak(Box::new(Sim {
            image: match SUBSET.get() {
                Some(ids) => Image::load_subset(ids),
                None => Image::load(),
            },
            holders: Mutex::new(BTreeMap::new()),
            st: Mutex::new(St {
                active: false,
                aborted: None,
                current: usize::MAX,
                status: vec![],
                locks: vec![],
                lock_ids: vec![],
                lazy_ids: vec![],
                lazy_cold_seen: vec![],
                cv_ids: vec![],
                cv_waiters: vec![],
                rng: Rng::new(0),
                strategy: Strategy::Random,
                prio: vec![],
                change_points: vec![],
                boost: vec![],
                preempted: vec![],
                streak: (usize::MAX, 0),
                stalled: None,
                stall_used: false,
                stmt_points: false,
                max_steps: 0,
                replay: None,
                choices: vec![],
                fp: Fnv::new(),
                acq_order: Fnv::new(),
                abstract_states: Default::default(),
                stats: RunStats::default(),
                trace: vec![],
                keep_trace: false,
            }),
            cv: Condvar::new(),
            read_yield: std::sync::atomic::AtomicU32::new(0),
        }));
        temporal_rs::verif_hooks::install(s);
        s
    })
}

pub struct SchedConfig {
    pub threads: usize,
    pub seed: u64,
    pub strategy: Strategy,
    pub max_steps: u64,
    pub replay: Option<Vec<u8>>,
    pub read_yield: u32,
    pub keep_trace: bool,
    /// Expected number of scheduling steps (for placing PCT change points).
    pub expected_steps: u64,
    /// Treat the statement-level points of the instrumented provider sources
    /// as scheduling points in this run.
    pub stmt_points: bool,
}

pub struct SchedResult {
    pub aborted: Option<String>,
    pub choices: Vec<u8>,
    pub fingerprint: u64,
    pub acq_order: u64,
    pub abstract_states: Vec<u64>,
    pub stats: RunStats,
    pub trace: Vec<String>,
}

impl Sim {
    fn lock_st(&self) -> std::sync::MutexGuard<'_, St> {
        self.st.lock().unwrap_or_else(|e| e.into_inner())
    }

    fn ord(ids: &mut Vec<usize>, id: usize) -> usize {
        if let Some(i) = ids.iter().position(|&x| x == id) {
            i
        } else {
            ids.push(id);
            ids.len() - 1
        }
    }

    /// Appends to the event log. Lock and condition-variable identities are
    /// deliberately NOT part of it: they are addresses, and whether a freed
    /// lock's address is reused by the allocator is not decided by the
    /// schedule.
    fn event(st: &mut St, me: usize, kind: &str, detail: u64) {
        // After an abort the threads unwind concurrently, outside the baton:
        // the log (and with it the fingerprint) is frozen at the abort.
        if st.aborted.is_some() {
            return;
        }
        st.fp.u64(me as u64);
        st.fp.str(kind);
        st.fp.u64(detail);
        if st.keep_trace {
            st.trace.push(format!("{} t{} {} {}", st.stats.steps, me, kind, detail));
        }
    }

    /// Picks who runs next among the runnable threads. `me` is the thread
    /// asking (usize::MAX for the harness at run start).
    fn choose(&self, st: &mut St, me: usize, boundary: bool) -> Option<usize> {
        let mut runnable: Vec<usize> =
            (0..st.status.len()).filter(|&i| st.status[i] == Status::Runnable).collect();
        if runnable.is_empty() {
            return None;
        }
        // Stall strategy: besides "right after acquiring a reporting lock",
        // a thread may also be frozen at any other scheduling point (it may
        // be inside a hand-rolled lock the simulator knows nothing about).
        if let Strategy::Stall(exp) = st.strategy {
            if !st.stall_used
                && st.replay.is_none()
                && me != usize::MAX
                && !boundary
                && st.status.get(me) == Some(&Status::Runnable)
                && st.rng.below(60) == 0
            {
                st.stall_used = true;
                let until = st.stats.steps + 10u64.pow(exp as u32);
                st.stalled = Some((me, until));
            }
        }
        if let Some((victim, until)) = st.stalled {
            if st.stats.steps >= until || st.replay.is_some() {
                st.stalled = None;
            } else {
                let others: Vec<usize> = runnable.iter().copied().filter(|t| *t != victim).collect();
                if others.is_empty() {
                    // nobody else can run: the stall is over
                    st.stalled = None;
                } else {
                    runnable = others;
                }
            }
        }
        st.stats.steps += 1;
        let step = st.stats.steps;
        let default = || if runnable.contains(&me) { me } else { runnable[0] };
        let pick = if let Some(rec) = st.replay.as_ref() {
            let pos = st.choices.len();
            match rec.get(pos) {
                Some(&c) if runnable.contains(&(c as usize)) => c as usize,
                _ => default(),
            }
        } else {
            match st.strategy {
                Strategy::Random | Strategy::Stall(_) => {
                    runnable[st.rng.below(runnable.len() as u64) as usize]
                }
                Strategy::Sticky(p) => {
                    let r = st.rng.below(16) as u8;
                    let k = st.rng.below(runnable.len() as u64) as usize;
                    if runnable.contains(&me) && r < p {
                        me
                    } else {
                        runnable[k]
                    }
                }
                Strategy::Pct(_) => {
                    if st.change_points.contains(&step) && me < st.prio.len() {
                        let low = st.prio.iter().copied().min().unwrap_or(0);
                        st.prio[me] = low.saturating_sub(1);
                    }
                    *runnable.iter().max_by_key(|&&t| st.prio[t]).unwrap()
                }
                Strategy::Burst(q) => {
                    let r1 = st.rng.below(q.max(2) as u64);
                    let r3 = st.rng.below(3);
                    let k = st.rng.below(runnable.len() as u64) as usize;
                    if boundary || !runnable.contains(&me) {
                        runnable[k]
                    } else {
                        let boosted = st.boost[me] > 0;
                        st.boost[me] = st.boost[me].saturating_sub(1);
                        let preempt = if boosted { r3 == 0 } else { r1 == 0 };
                        let others: Vec<usize> = runnable.iter().copied().filter(|t| *t != me).collect();
                        if preempt && !others.is_empty() {
                            st.preempted[me] = true;
                            others[k % others.len()]
                        } else {
                            me
                        }
                    }
                }
            }
        };
        // Eventual fairness (generation only): no strategy may starve the
        // other runnable threads for ever — a thread that legitimately
        // spin-waits for another one would otherwise exhaust the step budget
        // under "run the highest priority / the current thread" policies and
        // be reported as a livelock.
        let pick = if st.replay.is_none() && runnable.len() > 1 {
            if st.streak.0 == pick {
                st.streak.1 += 1;
            } else {
                st.streak = (pick, 1);
            }
            if st.streak.1 > 400 && st.stalled.is_none() {
                let others: Vec<usize> = runnable.iter().copied().filter(|t| *t != pick).collect();
                let forced = others[st.rng.below(others.len() as u64) as usize];
                st.streak = (forced, 1);
                if let Strategy::Pct(_) = st.strategy {
                    // demote the starving thread's rival for good
                    let low = st.prio.iter().copied().min().unwrap_or(0);
                    st.prio[pick] = low.saturating_sub(1);
                }
                forced
            } else {
                pick
            }
        } else {
            pick
        };
        if pick < st.preempted.len() && st.preempted[pick] && pick != me {
            st.preempted[pick] = false;
            st.boost[pick] = 3;
        }
        st.choices.push(pick as u8);
        if pick != me && me != usize::MAX {
            st.stats.context_switches += 1;
        }
        // abstract state: (who holds what, who waits, who is done)
        let mut h = Fnv::new();
        for (i, l) in st.locks.iter().enumerate() {
            h.u64(i as u64);
            h.u64(l.excl.map(|x| x as u64 + 1).unwrap_or(0));
            h.u64(l.shared.len() as u64);
        }
        for s in &st.status {
            h.u64(match s {
                Status::Runnable => 1,
                Status::Blocked(_) => 2,
                Status::Done => 3,
                Status::Waiting(_) => 4,
            });
        }
        h.u64(pick as u64);
        st.abstract_states.insert(h.0);
        Some(pick)
    }

    fn abort(&self, st: &mut St, why: &str) {
        if st.aborted.is_none() {
            st.aborted = Some(why.to_string());
            st.fp.str(why);
        }
        self.cv.notify_all();
    }

    /// Hands the baton to the scheduler's choice and waits to get it back.
    fn reschedule<'a>(
        &'a self,
        mut st: std::sync::MutexGuard<'a, St>,
        me: usize,
        boundary: bool,
    ) -> std::sync::MutexGuard<'a, St> {
        if st.stats.steps >= st.max_steps {
            self.abort(&mut st, "livelock");
        }
        if st.aborted.is_none() {
            match self.choose(&mut st, me, boundary) {
                Some(n) => {
                    st.current = n;
                    self.cv.notify_all();
                }
                None => {
                    let all_done = st.status.iter().all(|s| *s == Status::Done);
                    if all_done {
                        st.current = usize::MAX;
                        self.cv.notify_all();
                    } else {
                        self.abort(&mut st, "deadlock");
                    }
                }
            }
        }
        while st.aborted.is_none() && st.current != me && st.status[me] != Status::Done {
            st = self.cv.wait(st).unwrap_or_else(|e| e.into_inner());
        }
        st
    }

    /// A scheduling point. No-op for unregistered threads and outside runs.
    pub fn yield_point(&self, kind: &str, detail: u64) {
        let Some(me) = tid() else { return };
        let mut st = self.lock_st();
        if !st.active {
            return;
        }
        if st.aborted.is_some() {
            drop(st);
            Self::unwind_aborted();
            return;
        }
        Self::event(&mut st, me, kind, detail);
        let st = self.reschedule(st, me, kind == "op");
        if st.aborted.is_some() {
            drop(st);
            Self::unwind_aborted();
        }
    }

    /// Unwinds the calling thread out of an aborted run — unless it is
    /// already unwinding (a `Drop` that takes a lock or passes a scheduling
    /// point while the thread panics): a second panic would abort the
    /// process, so such a thread simply runs on, outside the baton.
    fn unwind_aborted() {
        if !std::thread::panicking() {
            std::panic::panic_any(SimAbort);
        }
    }

    /// Runs `bodies` as threads under the baton. Returns when all finished
    /// (or the run aborted and every thread unwound).
    pub fn run_threads(
        &'static self,
        cfg: SchedConfig,
        bodies: Vec<Box<dyn FnOnce() + Send + 'static>>,
    ) -> SchedResult {
        let n = bodies.len();
        assert_eq!(n, cfg.threads);
        {
            let mut st = self.lock_st();
            let mut rng = Rng::derive(cfg.seed, 0x5c4ed, 0);
            let prio: Vec<u32> = {
                // random permutation of 100..100+n
                let mut p: Vec<u32> = (0..n as u32).map(|i| 100 + i).collect();
                for i in (1..n).rev() {
                    let j = rng.below(i as u64 + 1) as usize;
                    p.swap(i, j);
                }
                p
            };
            let mut change_points = vec![];
            if let Strategy::Pct(d) = cfg.strategy {
                for _ in 0..d {
                    change_points.push(1 + rng.below(cfg.expected_steps.max(2)));
                }
            }
            *st = St {
                active: true,
                aborted: None,
                current: usize::MAX,
                status: vec![Status::Runnable; n],
                locks: vec![],
                lock_ids: vec![],
                lazy_ids: vec![],
                lazy_cold_seen: vec![],
                cv_ids: vec![],
                cv_waiters: vec![],
                rng,
                strategy: cfg.strategy,
                prio,
                change_points,
                boost: vec![0; n],
                preempted: vec![false; n],
                streak: (usize::MAX, 0),
                stalled: None,
                stall_used: false,
                stmt_points: cfg.stmt_points,
                max_steps: cfg.max_steps,
                replay: cfg.replay,
                choices: vec![],
                fp: Fnv::new(),
                acq_order: Fnv::new(),
                abstract_states: Default::default(),
                stats: RunStats::default(),
                trace: vec![],
                keep_trace: cfg.keep_trace,
            };
            self.read_yield.store(cfg.read_yield, std::sync::atomic::Ordering::SeqCst);
        }
        let mut handles = vec![];
        for (t, body) in bodies.into_iter().enumerate() {
            let me: &'static Sim = self;
            handles.push(
                std::thread::Builder::new()
                    .stack_size(2 << 20)
                    .spawn(move || {
                        TID.with(|x| x.set(t));
                        {
                            let mut st = me.lock_st();
                            while st.aborted.is_none() && st.current != t {
                                st = me.cv.wait(st).unwrap_or_else(|e| e.into_inner());
                            }
                        }
                        let r = std::panic::catch_unwind(std::panic::AssertUnwindSafe(body));
                        let mut st = me.lock_st();
                        if let Err(p) = r {
                            if !p.is::<SimAbort>() {
                                me.abort(&mut st, "harness-thread-panic");
                            }
                        }
                        st.status[t] = Status::Done;
                        Self::event(&mut st, t, "done", 0);
                        let _st = me.reschedule(st, t, true);
                    })
                    .expect("spawn"),
            );
        }
        {
            // hand out the baton for the first time
            let mut st = self.lock_st();
            let first = self.choose(&mut st, usize::MAX, true).unwrap();
            st.current = first;
            self.cv.notify_all();
        }
        for h in handles {
            let _ = h.join();
        }
        let mut st = self.lock_st();
        st.active = false;
        self.read_yield.store(0, std::sync::atomic::Ordering::SeqCst);
        SchedResult {
            aborted: st.aborted.clone(),
            choices: std::mem::take(&mut st.choices),
            fingerprint: st.fp.0,
            acq_order: st.acq_order.0,
            abstract_states: st.abstract_states.iter().copied().collect(),
            stats: st.stats.clone(),
            trace: std::mem::take(&mut st.trace),
        }
    }

    fn stmt_points_on(&self) -> bool {
        let st = self.lock_st();
        st.active && st.stmt_points
    }

    /// True while a wall-clock watchdog should consider the run alive.
    pub fn steps_so_far(&self) -> u64 {
        self.lock_st().stats.steps
    }
}

// -------------------------------------------------------- the Env seam

impl Env for Sim {
    fn before_lock(&self, lock: usize, exclusive: bool, blocking: bool) {
        let Some(me) = tid() else {
            // Outside the baton (solo reference executions, single-threaded
            // checks): the only thing that can go wrong is re-entrancy.
            let mine = self
                .holders
                .lock()
                .unwrap_or_else(|e| e.into_inner())
                .get(&lock)
                .map(|t| *t == std::thread::current().id())
                .unwrap_or(false);
            if mine && blocking {
                panic!("self-deadlock: the thread locks the provider while it already holds it");
            }
            return;
        };
        self.yield_point(if blocking { "lock?" } else { "trylock?" }, exclusive as u64);
        let mut st = self.lock_st();
        if !st.active {
            return;
        }
        let ord = Self::ord(&mut st.lock_ids, lock);
        while st.locks.len() <= ord {
            st.locks.push(LockState::default());
        }
        loop {
            if st.aborted.is_some() {
                drop(st);
                Self::unwind_aborted();
                return;
            }
            let ls = &st.locks[ord];
            let free = if exclusive {
                ls.excl.is_none() && ls.shared.is_empty()
            } else {
                ls.excl.is_none()
            };
            if free {
                return;
            }
            let mine = ls.excl == Some(me) || (exclusive && ls.shared.contains(&me));
            if !blocking {
                st.stats.trylock_contended += 1;
                Self::event(&mut st, me, "trylock-busy", 0);
                return;
            }
            if mine {
                Self::event(&mut st, me, "self-deadlock", 0);
                self.abort(&mut st, "self-deadlock");
                drop(st);
                Self::unwind_aborted();
                return;
            }
            st.status[me] = Status::Blocked(ord);
            st.stats.lock_contended += 1;
            let waiters =
                st.status.iter().filter(|s| matches!(s, Status::Blocked(o) if *o == ord)).count();
            st.stats.max_waiters = st.stats.max_waiters.max(waiters as u64);
            Self::event(&mut st, me, "blocked", 0);
            st = self.reschedule(st, me, true);
        }
    }

    fn after_lock(&self, lock: usize, exclusive: bool, acquired: bool, poisoned: bool) {
        if acquired && exclusive {
            self.holders
                .lock()
                .unwrap_or_else(|e| e.into_inner())
                .insert(lock, std::thread::current().id());
        }
        let Some(me) = tid() else { return };
        let mut st = self.lock_st();
        if !st.active {
            return;
        }
        let ord = Self::ord(&mut st.lock_ids, lock);
        while st.locks.len() <= ord {
            st.locks.push(LockState::default());
        }
        if acquired {
            if exclusive {
                st.locks[ord].excl = Some(me);
            } else {
                st.locks[ord].shared.push(me);
            }
            st.stats.lock_acquisitions += 1;
            if poisoned {
                st.stats.poisoned_acquisitions += 1;
            }
            st.acq_order.u64(me as u64);
            Self::event(&mut st, me, "acquired", poisoned as u64);
            if let Strategy::Stall(exp) = st.strategy {
                if !st.stall_used && st.replay.is_none() && st.rng.below(3) == 0 {
                    st.stall_used = true;
                    let until = st.stats.steps + 10u64.pow(exp as u32);
                    st.stalled = Some((me, until));
                }
            }
        }
    }

    fn after_unlock(&self, lock: usize, exclusive: bool, panicking: bool) {
        if exclusive {
            self.holders.lock().unwrap_or_else(|e| e.into_inner()).remove(&lock);
        }
        let Some(me) = tid() else { return };
        {
            let mut st = self.lock_st();
            if !st.active {
                return;
            }
            let ord = Self::ord(&mut st.lock_ids, lock);
            while st.locks.len() <= ord {
                st.locks.push(LockState::default());
            }
            if exclusive {
                st.locks[ord].excl = None;
            } else if let Some(i) = st.locks[ord].shared.iter().position(|&x| x == me) {
                st.locks[ord].shared.remove(i);
            }
            let mut woke = 0;
            for s in st.status.iter_mut() {
                if *s == Status::Blocked(ord) {
                    *s = Status::Runnable;
                    woke += 1;
                }
            }
            if panicking {
                st.stats.unlock_unwinding += 1;
                if woke > 0 {
                    st.stats.unlock_unwinding_with_waiters += 1;
                }
            }
            Self::event(&mut st, me, if panicking { "unlock-unwinding" } else { "unlock" }, 0);
            if st.aborted.is_some() {
                return;
            }
        }
        // Also a guard dropped during unwinding is a scheduling point (a
        // waiter may get in right after a panicking holder released the lock
        // and before the rest of that holder's unwinding runs); `yield_point`
        // never panics in a thread that is already unwinding.
        self.yield_point(if panicking { "unlocked-unwinding" } else { "unlocked" }, 0);
    }

    fn lazy_force(&self, lazy: usize, initialised: bool) {
        let Some(me) = tid() else { return };
        {
            let mut st = self.lock_st();
            if !st.active {
                return;
            }
            let ord = Self::ord(&mut st.lazy_ids, lazy);
            while st.lazy_cold_seen.len() <= ord {
                st.lazy_cold_seen.push(vec![]);
            }
            st.stats.lazy_forces += 1;
            if !initialised {
                st.stats.lazy_cold_forces += 1;
                if !st.lazy_cold_seen[ord].is_empty() && !st.lazy_cold_seen[ord].contains(&me) {
                    st.stats.lazy_raced += 1;
                }
                st.lazy_cold_seen[ord].push(me);
            }
        }
        // Only a cold force is an interesting scheduling point.
        if !initialised {
            self.yield_point("lazy-force", 0);
        }
    }

    fn cv_managed(&self) -> bool {
        if tid().is_none() {
            return false;
        }
        self.lock_st().active
    }

    fn cv_prepare_wait(&self, cv: usize) {
        let Some(me) = tid() else { return };
        let mut st = self.lock_st();
        if !st.active {
            return;
        }
        let ord = Self::ord(&mut st.cv_ids, cv);
        while st.cv_waiters.len() <= ord {
            st.cv_waiters.push(vec![]);
        }
        st.cv_waiters[ord].push((me, false));
        st.stats.cv_waits += 1;
        Self::event(&mut st, me, "cv-wait", 0);
    }

    fn cv_block(&self, cv: usize) {
        let Some(me) = tid() else { return };
        let mut st = self.lock_st();
        if !st.active {
            return;
        }
        let ord = Self::ord(&mut st.cv_ids, cv);
        while st.cv_waiters.len() <= ord {
            st.cv_waiters.push(vec![]);
        }
        loop {
            if st.aborted.is_some() {
                drop(st);
                Self::unwind_aborted();
                return;
            }
            if let Some(i) = st.cv_waiters[ord].iter().position(|(t, n)| *t == me && *n) {
                st.cv_waiters[ord].remove(i);
                Self::event(&mut st, me, "cv-woken", 0);
                return;
            }
            st.status[me] = Status::Waiting(ord);
            Self::event(&mut st, me, "cv-sleep", 0);
            st = self.reschedule(st, me, true);
        }
    }

    fn cv_notify(&self, cv: usize, all: bool) {
        let Some(me) = tid() else { return };
        {
            let mut st = self.lock_st();
            if !st.active {
                return;
            }
            let ord = Self::ord(&mut st.cv_ids, cv);
            while st.cv_waiters.len() <= ord {
                st.cv_waiters.push(vec![]);
            }
            st.stats.cv_notifies += 1;
            let mut woken = vec![];
            for w in st.cv_waiters[ord].iter_mut() {
                if !w.1 {
                    w.1 = true;
                    woken.push(w.0);
                    if !all {
                        break;
                    }
                }
            }
            for t in &woken {
                if st.status[*t] == Status::Waiting(ord) {
                    st.status[*t] = Status::Runnable;
                }
            }
            Self::event(&mut st, me, if all { "cv-notify-all" } else { "cv-notify-one" }, woken.len() as u64);
        }
        self.yield_point("notified", 0);
    }

    fn point(&self, name: &'static str) {
        if tid().is_some() {
            // "<file>:<line>" = statement-level point inserted by the
            // instrumenter; only some runs use them (swarm)
            if name.starts_with("loop:") {
                // loop heads are always honoured: a spin-wait must never keep
                // the baton
                self.yield_point("loop", crate::rng::Fnv::hash_str(name));
            } else if name.contains(':') {
                if !self.stmt_points_on() {
                    return;
                }
                self.lock_st().stats.stmt_point_yields += 1;
                self.yield_point("stmt", crate::rng::Fnv::hash_str(name));
            } else {
                self.yield_point(name, 0);
            }
        } else if name.starts_with("loop:") {
            let over = with_ctx(|c| {
                c.loop_heads += 1;
                c.loop_heads == OP_LOOP_BUDGET
            });
            if over == Some(true) && !std::thread::panicking() {
                panic!("verif: loop without bound (one operation passed more than {OP_LOOP_BUDGET} loop heads)");
            }
        }
    }

    fn open(&self, path: &Path) -> io::Result<Box<dyn Read>> {
        if tid().is_some() {
            let mut st = self.lock_st();
            if st.active {
                st.stats.opens += 1;
            }
            drop(st);
            self.yield_point("open", 0);
        }
        if tid().is_none() && !std::thread::panicking() {
            let over = with_ctx(|c| c.opens == OP_OPEN_BUDGET);
            if over == Some(true) {
                with_ctx(|c| c.opens += 1);
                panic!("verif: loop without bound (one operation opened files more than {OP_OPEN_BUDGET} times)");
            }
        }
        let fault = with_ctx(|c| {
            c.opens += 1;
            if c.opens == 1 {
                c.fault_path = Some(path.to_path_buf());
                c.fault
            } else if c.fault.is_some_and(|f| f.persist) && c.fault_path.as_deref() == Some(path) {
                c.persist_hits += 1;
                c.fault
            } else {
                None
            }
        })
        .flatten();
        if let Some(Fault { kind: FaultKind::Enoent, .. }) = fault {
            with_ctx(|c| c.fault_fired = true);
            return Err(io::Error::from(io::ErrorKind::NotFound));
        }
        if let Some(Fault { kind: FaultKind::Eacces, .. }) = fault {
            with_ctx(|c| c.fault_fired = true);
            return Err(io::Error::from(io::ErrorKind::PermissionDenied));
        }
        let Some(zf) = self.image.get(path) else {
            return Err(io::Error::from(io::ErrorKind::NotFound));
        };
        let len = zf.bytes.len();
        let usable = zf.footer_at.saturating_sub(1).min(len);
        let at = |pm: u32| (usable as u64 * pm as u64 / 1000) as usize;
        let mut f = SimFile {
            data: zf.bytes.clone(),
            pos: 0,
            end: len,
            eio_at: None,
            eintr_at: None,
            short: false,
            eisdir: false,
            registered: tid().is_some(),
        };
        match fault {
            Some(Fault { kind: FaultKind::Eio, at_permille, .. }) => f.eio_at = Some(at(at_permille)),
            Some(Fault { kind: FaultKind::Eisdir, .. }) => f.eisdir = true,
            Some(Fault { kind: FaultKind::Eintr, at_permille, .. }) => {
                f.eintr_at = Some(at(at_permille))
            }
            Some(Fault { kind: FaultKind::Short, .. }) => f.short = true,
            Some(Fault { kind: FaultKind::Trunc, at_permille, .. }) => {
                f.end = at(at_permille);
                // the truncation is a property of the file: it "fires" as
                // soon as the file is opened
                with_ctx(|c| c.fault_fired = true);
            }
            _ => {}
        }
        Ok(Box::new(f))
    }

    fn now(&self) -> std::time::SystemTime {
        if tid().is_some() {
            let mut st = self.lock_st();
            if st.active {
                st.stats.clock_reads += 1;
            }
            drop(st);
            self.yield_point("clock", 0);
        }
        let reading = with_ctx(|c| {
            let i = c.clock_reads;
            c.clock_reads += 1;
            if c.clock.is_empty() {
                1_700_000_000_123_456_789
            } else {
                c.clock[i.min(c.clock.len() - 1)]
            }
        })
        .unwrap_or(1_700_000_000_123_456_789);
        systime(reading)
    }

    fn host_tz(&self) -> Result<String, iana_err::Error> {
        if tid().is_some() {
            let mut st = self.lock_st();
            if st.active {
                st.stats.host_reads += 1;
            }
            drop(st);
            self.yield_point("hosttz", 0);
        }
        let host = with_ctx(|c| {
            c.host_reads += 1;
            c.host.clone()
        })
        .unwrap_or_else(|| "ok:UTC".to_string());
        match host.strip_prefix("ok:") {
            Some(name) => Ok(name.to_string()),
            None => Err(iana_err::Error::FailedParsingString),
        }
    }
}

pub mod iana_err {
    pub use temporal_rs::verif_hooks::iana_time_zone::GetTimezoneError as Error;
}

/// Scripted clock reading (ns relative to the epoch) → `SystemTime`.
pub fn systime(ns: i128) -> std::time::SystemTime {
    let abs = ns.unsigned_abs();
    let d = Duration::new((abs / 1_000_000_000) as u64, (abs % 1_000_000_000) as u32);
    if ns >= 0 {
        UNIX_EPOCH + d
    } else {
        UNIX_EPOCH - d
    }
}

struct SimFile {
    data: Arc<Vec<u8>>,
    pos: usize,
    end: usize,
    eio_at: Option<usize>,
    eintr_at: Option<usize>,
    short: bool,
    eisdir: bool,
    registered: bool,
}

impl Read for SimFile {
    fn read(&mut self, buf: &mut [u8]) -> io::Result<usize> {
        if self.registered {
            let every = sim().read_yield.load(std::sync::atomic::Ordering::Relaxed) as usize;
            if every > 0 && self.pos % every == every - 1 {
                sim().yield_point("read", self.pos as u64);
            }
        }
        if self.eisdir {
            with_ctx(|c| c.fault_fired = true);
            return Err(io::Error::new(io::ErrorKind::Other, "Is a directory (os error 21)"));
        }
        if let Some(at) = self.eio_at {
            if self.pos >= at {
                with_ctx(|c| c.fault_fired = true);
                return Err(io::Error::new(io::ErrorKind::Other, "injected EIO"));
            }
        }
        if let Some(at) = self.eintr_at {
            if self.pos >= at {
                self.eintr_at = None;
                with_ctx(|c| c.fault_fired = true);
                return Err(io::Error::from(io::ErrorKind::Interrupted));
            }
        }
        let left = self.end.saturating_sub(self.pos);
        let mut n = left.min(buf.len());
        if self.short && n > 1 {
            n = 1 + (self.pos * 7 + 3) % (n - 1);
            with_ctx(|c| c.fault_fired = true);
        } else if self.short {
            // a one-byte request cannot be shortened; the reader is still the
            // "short" one, which is what this fault kind is about
            with_ctx(|c| c.fault_fired = true);
        }
        buf[..n].copy_from_slice(&self.data[self.pos..self.pos + n]);
        self.pos += n;
        with_ctx(|c| c.bytes_read += n as u64);
        Ok(n)
    }
}

/// Registered-thread check used by the workload for explicit yields.
pub fn is_sim_thread() -> bool {
    tid().is_some()
}

#[allow(dead_code)]
pub fn lock_table_debug() -> BTreeMap<usize, String> {
    let st = sim().lock_st();
    st.locks.iter().enumerate().map(|(i, l)| (i, format!("{:?}/{:?}", l.excl, l.shared))).collect()
}
