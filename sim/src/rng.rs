//! SplitMix64: the only source of randomness in the simulator.

#[derive(Clone, Debug)]
pub struct Rng(pub u64);

impl Rng {
    pub fn new(seed: u64) -> Self {
        Rng(seed)
    }
    /// Derives an independent stream (used for: workload, faults, schedule).
    pub fn derive(seed: u64, a: u64, b: u64) -> Self {
        let mut r = Rng(seed ^ 0x9E37_79B9_7F4A_7C15u64.wrapping_mul(a.wrapping_add(1)));
        let x = r.next();
        let mut r2 = Rng(x ^ 0xD1B5_4A32_D192_ED03u64.wrapping_mul(b.wrapping_add(1)));
        r2.next();
        r2
    }
    pub fn next(&mut self) -> u64 {
        self.0 = self.0.wrapping_add(0x9E37_79B9_7F4A_7C15);
        let mut z = self.0;
        z = (z ^ (z >> 30)).wrapping_mul(0xBF58_476D_1CE4_E5B9);
        z = (z ^ (z >> 27)).wrapping_mul(0x94D0_49BB_1331_11EB);
        z ^ (z >> 31)
    }
    /// Uniform in 0..n (n > 0).
    pub fn below(&mut self, n: u64) -> u64 {
        debug_assert!(n > 0);
        self.next() % n
    }
    pub fn range(&mut self, lo: i64, hi: i64) -> i64 {
        lo + (self.next() % ((hi - lo + 1) as u64)) as i64
    }
    pub fn chance(&mut self, num: u64, den: u64) -> bool {
        self.below(den) < num
    }
    pub fn pick<'a, T>(&mut self, xs: &'a [T]) -> &'a T {
        &xs[self.below(xs.len() as u64) as usize]
    }
}

/// FNV-1a, used for fingerprints (stable across processes and platforms).
#[derive(Clone, Copy)]
pub struct Fnv(pub u64);
impl Fnv {
    pub fn new() -> Self {
        Fnv(0xcbf2_9ce4_8422_2325)
    }
    pub fn bytes(&mut self, b: &[u8]) {
        for &x in b {
            self.0 = (self.0 ^ x as u64).wrapping_mul(0x0000_0100_0000_01b3);
        }
    }
    pub fn str(&mut self, s: &str) {
        self.bytes(s.as_bytes());
        self.bytes(&[0xff]);
    }
    pub fn hash_str(s: &str) -> u64 {
        let mut h = Fnv::new();
        h.bytes(s.as_bytes());
        h.0
    }
    pub fn u64(&mut self, v: u64) {
        self.bytes(&v.to_le_bytes());
    }
}
