//! Free-threaded mode: the same operations and the same solo-execution
//! oracle, but on real threads with NO baton — meant to be executed by Miri
//! (`-Zmiri-many-seeds`), whose own seeded scheduler pre-empts at arbitrary
//! points and which reports data races, undefined behaviour and deadlocks.
//! The baton serialises threads and can never exhibit a data race; this mode
//! is the complement for exactly that.

use crate::ops::{self, exec, Mode, Op, Outcome};
use crate::props::reset_shared;
use crate::rng::Rng;
use crate::simenv::{self, Fault, FaultKind};
use std::sync::{Arc, Barrier};
use temporal_rs::tzdb::FsTzdbProvider;

pub const MIRI_ZONES: [&str; 4] = ["America/New_York", "Europe/Berlin", "Pacific/Apia", "Asia/Kolkata"];

const KINDS: [&str; 12] = [
    "zdt.hour",
    "zdt.offset",
    "zdt.day_of_week",
    "zdt.to_plain_datetime",
    "zdt.start_of_day",
    "zdt.display",
    "raw.offset",
    "raw.local",
    "now.plain_date_iso",
    "instant.to_ixdtf_string",
    "zdt.nanosecond",
    "pdt.to_zoned_date_time",
];

pub fn plan(seed: u64) -> Vec<Vec<Op>> {
    let mut r = Rng::derive(seed, 0xf4ee, 7);
    let zones: Vec<&str> = {
        let a = *r.pick(&MIRI_ZONES);
        let mut b = *r.pick(&MIRI_ZONES);
        if b == a {
            b = MIRI_ZONES[(MIRI_ZONES.iter().position(|z| *z == a).unwrap() + 1) % MIRI_ZONES.len()];
        }
        vec![a, b]
    };
    let n_threads = 2 + r.below(2) as usize;
    let mut threads = vec![];
    if seed % 2 == 1 {
        // "hot" workload: every thread hammers one or two accessors on the
        // same two receivers (warm after the first call)
        let kinds: Vec<&str> = (0..1 + r.below(2)).map(|_| *r.pick(&KINDS[..7])).collect();
        let recv: Vec<(&str, i128)> = zones
            .iter()
            .map(|z| (*z, r.range(0, 2_000_000_000) as i128 * 1_000_000_000 + 123_456_789))
            .collect();
        for _ in 0..3 {
            let mut v = vec![];
            for _ in 0..4 {
                let (z, ns) = *r.pick(&recv);
                let kind: &str = *r.pick(&kinds);
                let mut o = Op::new(kind, z, ns);
                o.sel = r.below(1000) as u32;
                v.push(o);
            }
            threads.push(v);
        }
        return threads;
    }
    for _ in 0..n_threads {
        let n = 2 + r.below(2) as usize;
        let mut v = vec![];
        for _ in 0..n {
            if r.chance(1, 8) {
                v.push(Op::new(ops::INJECT_PANIC, "UTC", 0));
                continue;
            }
            let zone = if r.chance(1, 10) { "No/Such_Zone" } else { *r.pick(&zones) };
            let ns = r.range(-1_000_000_000, 2_000_000_000) as i128 * 1_000_000_000 + 123_456_789;
            let kind: &str = *r.pick(&KINDS);
            let mut o = Op::new(kind, zone, ns);
            o.sel = r.below(1000) as u32;
            if o.kind.starts_with("now.") {
                o.clock = vec![ns.max(0)];
                o.host = format!("ok:{}", zones[0]);
            }
            if r.chance(1, 8) {
                o.fault = Some(Fault { kind: *r.pick(&[FaultKind::Enoent, FaultKind::Eio, FaultKind::Trunc]), at_permille: r.below(1000) as u32, persist: false });
            }
            v.push(o);
        }
        threads.push(v);
    }
    threads
}

/// Returns the number of mismatches against the solo references.
pub fn run(seed: u64, verbose: bool) -> usize {
    simenv::use_subset(MIRI_ZONES.to_vec());
    ops::install_panic_hook();
    let _ = simenv::sim();
    let threads = plan(seed);
    reset_shared();
    let barrier = Arc::new(Barrier::new(threads.len()));
    let mut handles = vec![];
    for ops_ in threads.clone() {
        let barrier = barrier.clone();
        handles.push(std::thread::spawn(move || {
            barrier.wait();
            ops_.iter().map(|op| exec::<FsTzdbProvider>(op, Mode::Wrapper, true)).collect::<Vec<_>>()
        }));
    }
    let results: Vec<Vec<ops::ExecInfo>> = handles.into_iter().map(|h| h.join().expect("worker thread")).collect();
    let mut bad = 0;
    for (t, ops_) in threads.iter().enumerate() {
        for (i, op) in ops_.iter().enumerate() {
            let got = &results[t][i];
            reset_shared();
            let reference = exec::<FsTzdbProvider>(op, Mode::Wrapper, false).outcome;
            let relaxed = op.fault.map(|f| got.fault_fired && f.kind.may_fail() && matches!(got.outcome, Outcome::Err(..))).unwrap_or(false);
            let ok = got.outcome.same(&reference) || relaxed;
            if verbose || !ok {
                println!("  t{t}.{i} {} => {}{}", op.show(), got.outcome.show(), if ok { String::new() } else { format!("   != solo {}", reference.show()) });
            }
            if !ok {
                bad += 1;
            }
            let _ = Outcome::Ok(String::new());
        }
    }
    reset_shared();
    bad
}
