//! The simulated disk: an in-memory image of the zoneinfo tree, taken once
//! per process. This is the only contact with the real file system.

use std::collections::BTreeMap;
use std::path::Path;
use std::sync::Arc;

pub const ZONEINFO: &str = "/usr/share/zoneinfo";

pub struct ZoneFile {
    pub bytes: Arc<Vec<u8>>,
    /// Transition times of the v2+ data block (empty if none / not TZif).
    pub transitions: Vec<i64>,
    /// Transitions after which local midnight does not exist (the clock jumps
    /// forward from 00:00): the days on which "start of day" takes the
    /// fallback path.
    pub midnight_gaps: Vec<i64>,
    /// Offset where the footer starts (== len if no footer found).
    pub footer_at: usize,
    pub is_tzif: bool,
}

pub struct Image {
    /// key: path relative to the zoneinfo root, e.g. "Europe/Berlin".
    pub files: BTreeMap<String, ZoneFile>,
    /// Identifiers usable as zones in the workload (TZif files outside
    /// posix/ and right/), sorted.
    pub zones: Vec<String>,
    /// The subset of `zones` that has days without a local midnight.
    pub midnight_gap_zones: Vec<String>,
    /// Catalogue names that are symbolic links to another zone file, e.g.
    /// "US/Eastern" (-> "../America/New_York"); empty where the database is
    /// installed with hard links.
    pub links: Vec<String>,
}

fn be32(b: &[u8], at: usize) -> usize {
    u32::from_be_bytes([b[at], b[at + 1], b[at + 2], b[at + 3]]) as usize
}

/// Minimal TZif header reader: returns (v2 transition times, transitions that
/// skip local midnight, footer offset).
fn scan_tzif(b: &[u8]) -> Option<(Vec<i64>, Vec<i64>, usize)> {
    if b.len() < 44 || &b[0..4] != b"TZif" {
        return None;
    }
    let version = b[4];
    let counts = |at: usize| {
        (
            be32(b, at + 20), // isutcnt
            be32(b, at + 24), // isstdcnt
            be32(b, at + 28), // leapcnt
            be32(b, at + 32), // timecnt
            be32(b, at + 36), // typecnt
            be32(b, at + 40), // charcnt
        )
    };
    let (isut, isstd, leap, timecnt, typecnt, charcnt) = counts(0);
    let v1_len = timecnt * 4 + timecnt + typecnt * 6 + charcnt + leap * 8 + isstd + isut;
    if version == 0 {
        return Some((Vec::new(), Vec::new(), b.len()));
    }
    let h2 = 44 + v1_len;
    if b.len() < h2 + 44 || &b[h2..h2 + 4] != b"TZif" {
        return None;
    }
    let (isut, isstd, leap, timecnt, typecnt, charcnt) = counts(h2);
    let d2 = h2 + 44;
    let v2_len = timecnt * 8 + timecnt + typecnt * 6 + charcnt + leap * 12 + isstd + isut;
    if b.len() < d2 + v2_len {
        return None;
    }
    let mut tr = Vec::with_capacity(timecnt);
    for i in 0..timecnt {
        let at = d2 + i * 8;
        let mut x = [0u8; 8];
        x.copy_from_slice(&b[at..at + 8]);
        tr.push(i64::from_be_bytes(x));
    }
    // transition types and the utoff of each local time type
    let types_at = d2 + timecnt * 8;
    let ttinfo_at = types_at + timecnt;
    let utoff = |ty: usize| -> i64 {
        let at = ttinfo_at + ty * 6;
        i32::from_be_bytes([b[at], b[at + 1], b[at + 2], b[at + 3]]) as i64
    };
    let mut gaps = vec![];
    for i in 1..timecnt {
        let before = b[types_at + i - 1] as usize;
        let after = b[types_at + i] as usize;
        if before >= typecnt || after >= typecnt {
            continue;
        }
        let (ob, oa) = (utoff(before), utoff(after));
        if oa > ob && (tr[i] + ob).rem_euclid(86_400) == 0 {
            gaps.push(tr[i]);
        }
    }
    Some((tr, gaps, d2 + v2_len))
}

fn load_dir(root: &Path, dir: &Path, out: &mut BTreeMap<String, ZoneFile>, links: &mut Vec<String>) {
    let Ok(rd) = std::fs::read_dir(dir) else { return };
    let mut entries: Vec<_> = rd.filter_map(|e| e.ok()).map(|e| e.path()).collect();
    entries.sort();
    for p in entries {
        if p.is_dir() {
            load_dir(root, &p, out, links);
        } else if let Ok(bytes) = std::fs::read(&p) {
            let rel = p.strip_prefix(root).unwrap().to_str().unwrap().to_string();
            if std::fs::symlink_metadata(&p).map(|m| m.file_type().is_symlink()).unwrap_or(false) {
                links.push(rel.clone());
            }
            let scanned = scan_tzif(&bytes);
            let (transitions, midnight_gaps, footer_at, is_tzif) = match scanned {
                Some((t, g, f)) => (t, g, f, true),
                None => (Vec::new(), Vec::new(), bytes.len(), false),
            };
            out.insert(rel, ZoneFile { bytes: Arc::new(bytes), transitions, midnight_gaps, footer_at, is_tzif });
        }
    }
}

impl Image {
    /// Only the named zones (used under Miri, where reading 900 files through
    /// the interpreter would take minutes).
    pub fn load_subset(ids: &[&str]) -> Image {
        let root = Path::new(ZONEINFO);
        let mut files = BTreeMap::new();
        for id in ids {
            if let Ok(bytes) = std::fs::read(root.join(id)) {
                let (transitions, midnight_gaps, footer_at, is_tzif) = match scan_tzif(&bytes) {
                    Some((t, g, f)) => (t, g, f, true),
                    None => (Vec::new(), Vec::new(), bytes.len(), false),
                };
                files.insert(id.to_string(), ZoneFile { bytes: Arc::new(bytes), transitions, midnight_gaps, footer_at, is_tzif });
            }
        }
        let zones: Vec<String> = files.keys().cloned().collect();
        let midnight_gap_zones =
            zones.iter().filter(|z| !files[*z].midnight_gaps.is_empty()).cloned().collect();
        Image { files, zones, midnight_gap_zones, links: vec![] }
    }
    pub fn load() -> Image {
        let root = Path::new(ZONEINFO);
        let mut files = BTreeMap::new();
        let mut links = vec![];
        load_dir(root, root, &mut files, &mut links);
        let zones: Vec<String> = files
            .iter()
            .filter(|(k, v)| {
                v.is_tzif
                    && !k.starts_with("posix/")
                    && !k.starts_with("right/")
                    && !k.contains('.')
                    && *k != "localtime"
                    && *k != "posixrules"
            })
            .map(|(k, _)| k.clone())
            .collect();
        let midnight_gap_zones =
            zones.iter().filter(|z| !files[*z].midnight_gaps.is_empty()).cloned().collect();
        let links = links.into_iter().filter(|l| zones.contains(l)).collect();
        Image { files, zones, midnight_gap_zones, links }
    }
    pub fn get(&self, abs: &Path) -> Option<&ZoneFile> {
        // like the real file system: a trailing slash on a regular file is
        // ENOTDIR, an embedded NUL is an error
        let text = abs.to_str()?;
        if text.ends_with('/') || text.contains('\0') {
            return None;
        }
        let rel = abs.strip_prefix(ZONEINFO).ok()?;
        self.files.get(rel.to_str()?)
    }
    /// Would `FsTzdbProvider` find a file for this identifier on the
    /// simulated disk? (Same path construction as `Tzif::read_tzif`.)
    pub fn resolves(&self, identifier: &str) -> bool {
        let mut path = std::path::PathBuf::from(format!("{ZONEINFO}/"));
        path.push(identifier);
        self.get(&path).map(|z| z.is_tzif).unwrap_or(false)
    }
    pub fn zone(&self, id: &str) -> Option<&ZoneFile> {
        self.files.get(id)
    }
}
