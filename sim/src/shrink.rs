//! Minimisation of a failing plan: drop threads, operations and faults,
//! simplify arguments, prefer schedules with few context switches — each
//! candidate is re-executed (recorded schedule prefix, then default order)
//! and kept while the same violation class persists.

use crate::plan::Plan;
use crate::props::{run_plan, Violation};

pub struct Shrunk {
    pub plan: Plan,
    pub violation: Violation,
    pub fingerprint: u64,
    pub candidates_tried: u32,
    pub from_ops: usize,
    pub from_faults: usize,
}

fn fails_once(p: &Plan, class: &str) -> Option<(Vec<u8>, u64, Violation)> {
    let r = run_plan(p, false);
    match r.violation {
        Some(v) if v.class == class => Some((r.schedule, r.fingerprint, v)),
        _ => None,
    }
}

/// Does the candidate still violate with the same class? Tried with its own
/// (recorded) schedule first, then with the simplest schedules there are:
/// fully sequential, and "thread k first, then the others in order".
fn still_fails(p: &Plan, class: &str) -> Option<(Vec<u8>, u64, Violation)> {
    if let Some(x) = fails_once(p, class) {
        return Some(x);
    }
    if p.threads.len() > 1 && (p.prop == "C20" || p.prop == "C03") {
        for k in 0..p.threads.len() {
            let mut q = p.clone();
            q.schedule = Some(vec![k as u8]);
            if p.schedule.as_deref() == Some(&[k as u8][..]) {
                continue;
            }
            if let Some(x) = fails_once(&q, class) {
                return Some(x);
            }
        }
    }
    None
}

fn drop_thread(p: &Plan, k: usize) -> Plan {
    let mut q = p.clone();
    q.threads.remove(k);
    if let Some(s) = &mut q.schedule {
        s.retain(|&c| c as usize != k);
        for c in s.iter_mut() {
            if *c as usize > k {
                *c -= 1;
            }
        }
    }
    q
}

pub fn shrink(original: &Plan, recorded_schedule: Vec<u8>, violation: &Violation, budget: u32) -> Shrunk {
    let class = violation.class.clone();
    let mut best = original.clone();
    best.schedule = Some(recorded_schedule);
    let from_ops = best.n_ops();
    let from_faults = best.n_faults();
    let mut tried = 0u32;
    let mut best_v = violation.clone();
    let mut best_fp = 0u64;
    // make sure the recorded schedule reproduces at all
    match still_fails(&best, &class) {
        Some((s, fp, v)) => {
            best.schedule = Some(s);
            best_fp = fp;
            best_v = v;
        }
        None => {
            // not reproducible from the record: report the original as is
            return Shrunk { plan: best, violation: best_v, fingerprint: 0, candidates_tried: 1, from_ops, from_faults };
        }
    }
    macro_rules! attempt {
        ($cand:expr) => {{
            let cand: Plan = $cand;
            tried += 1;
            if let Some((s, fp, v)) = still_fails(&cand, &class) {
                best = cand;
                best.schedule = Some(s);
                best_fp = fp;
                best_v = v;
                true
            } else {
                false
            }
        }};
    }
    let mut progress = true;
    while progress && tried < budget {
        progress = false;
        // 1. sequential schedule (no recorded choices: default order)
        if best.schedule.as_ref().map(|s| !s.is_empty()).unwrap_or(true) {
            let mut c = best.clone();
            c.schedule = Some(vec![]);
            if attempt!(c) {
                progress = true;
            }
        }
        // 2. drop whole threads
        let mut k = 0;
        while k < best.threads.len() && best.threads.len() > 1 && tried < budget {
            if attempt!(drop_thread(&best, k)) {
                progress = true;
            } else {
                k += 1;
            }
        }
        // 3. drop operations (from the end of each thread)
        for t in 0..best.threads.len() {
            let mut i = best.threads[t].len();
            while i > 0 && tried < budget {
                i -= 1;
                if best.threads[t].len() <= 1 && best.threads.len() == 1 {
                    break;
                }
                let mut c = best.clone();
                c.threads[t].remove(i);
                if attempt!(c) {
                    progress = true;
                }
            }
        }
        // 4. drop faults, prewarm, read yields
        for t in 0..best.threads.len() {
            for i in 0..best.threads[t].len() {
                if tried >= budget {
                    break;
                }
                if best.threads[t][i].fault.is_some() {
                    let mut c = best.clone();
                    c.threads[t][i].fault = None;
                    if attempt!(c) {
                        progress = true;
                    }
                }
                if best.threads[t][i].fail_at & 0xff > 1 {
                    let mut c = best.clone();
                    c.threads[t][i].fail_at = (best.threads[t][i].fail_at & 0x100) | 1;
                    if attempt!(c) {
                        progress = true;
                    }
                }
            }
        }
        if !best.prewarm.is_empty() && tried < budget {
            let mut c = best.clone();
            c.prewarm.clear();
            if attempt!(c) {
                progress = true;
            }
        }
        if best.stmt_points && tried < budget {
            let mut c = best.clone();
            c.stmt_points = false;
            if attempt!(c) {
                progress = true;
            }
        }
        if best.read_yield != 0 && tried < budget {
            let mut c = best.clone();
            c.read_yield = 0;
            if attempt!(c) {
                progress = true;
            }
        }
        // 5. simplify arguments
        for t in 0..best.threads.len() {
            for i in 0..best.threads[t].len() {
                if tried >= budget {
                    break;
                }
                let o = best.threads[t][i].clone();
                if o.cal != 0 {
                    let mut c = best.clone();
                    c.threads[t][i].cal = 0;
                    if attempt!(c) {
                        progress = true;
                    }
                }
                if o.sel != 0 {
                    let mut c = best.clone();
                    c.threads[t][i].sel = 0;
                    if attempt!(c) {
                        progress = true;
                    }
                }
                if o.ns % 1_000_000_000 != 0 {
                    let mut c = best.clone();
                    let ns = o.ns - o.ns.rem_euclid(1_000_000_000);
                    if c.threads[t][i].ns2 == c.threads[t][i].ns {
                        c.threads[t][i].ns2 = ns;
                    }
                    c.threads[t][i].ns = ns;
                    if attempt!(c) {
                        progress = true;
                    }
                }
                if o.zone2 != o.zone || o.ns2 != o.ns {
                    let mut c = best.clone();
                    c.threads[t][i].zone2 = o.zone.clone();
                    c.threads[t][i].ns2 = o.ns;
                    if attempt!(c) {
                        progress = true;
                    }
                }
                if o.clock.len() > 1 {
                    let mut c = best.clone();
                    c.threads[t][i].clock.truncate(1);
                    if attempt!(c) {
                        progress = true;
                    }
                }
                if let Some(f) = o.fault {
                    if f.at_permille != 0 {
                        let mut c = best.clone();
                        c.threads[t][i].fault = Some(crate::simenv::Fault { kind: f.kind, at_permille: 0, persist: f.persist });
                        if attempt!(c) {
                            progress = true;
                        }
                    }
                    if f.persist {
                        // a fault that heals before a retry is the simpler one
                        let mut c = best.clone();
                        if let Some(cf) = c.threads[t][i].fault.as_mut() {
                            cf.persist = false;
                        }
                        if attempt!(c) {
                            progress = true;
                        }
                    }
                }
            }
        }
        // 6. shorten the recorded schedule (keep a prefix, default afterwards)
        if let Some(s) = best.schedule.clone() {
            let mut len = s.len();
            while len > 0 && tried < budget {
                let half = len / 2;
                let mut c = best.clone();
                c.schedule = Some(s[..half].to_vec());
                if attempt!(c) {
                    progress = true;
                    break;
                }
                len = half;
                if half == 0 {
                    break;
                }
            }
        }
    }
    Shrunk { plan: best, violation: best_v, fingerprint: best_fp, candidates_tried: tried, from_ops, from_faults }
}
