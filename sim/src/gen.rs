//! Seeded generation of plans (swarm style: sizes, zone set, workload mix,
//! enabled fault kinds and scheduler strategy all vary per run).

use crate::disk::Image;
use crate::ops::{self, Op};
use crate::plan::Plan;
use crate::rng::Rng;
use crate::simenv::{Fault, FaultKind, Strategy, DISK_FAULTS};

const NS_MAX: i128 = 8_640_000_000_000_000_000_000;
const SUBS: [i128; 5] = [123_456_789, 987_654_321, 1_002_003, 0, 999_999_999];

/// Pairs of identifiers that a cache keyed by something coarser than the
/// identifier would confuse.
const RELATED: [(&str, &str); 5] = [
    ("America/Indiana/Indianapolis", "America/Indianapolis"),
    ("America/Argentina/Buenos_Aires", "America/Buenos_Aires"),
    ("Europe/Berlin", "Europe/Belfast"),
    ("Asia/Kolkata", "Asia/Calcutta"),
    ("America/Kentucky/Louisville", "America/Louisville"),
];

pub struct Gen<'a> {
    pub rng: Rng,
    pub image: &'a Image,
    pub zones: Vec<String>,
    pub named: Vec<String>,
    /// Receivers already used in this run: real programs call several
    /// accessors on the same value, from several threads (memo-style defects
    /// need a repeated value to show).
    recent: Vec<(String, i128, u8)>,
    last_op: Option<Op>,
    /// "Hot" runs: one or two kinds of call on two to four receivers make up
    /// most of the workload (many threads hammering the same accessor on the
    /// same values).
    hot: bool,
    pub thorough: bool,
}

impl<'a> Gen<'a> {
    pub fn new(seed: u64, image: &'a Image) -> Self {
        let mut g = Gen { rng: Rng::derive(seed, 0x9e4, 1), image, zones: vec![], named: vec![], recent: vec![], last_op: None, hot: false, thorough: false };
        g.pick_zones();
        g
    }

    /// Re-draws the run's zone set with many zones (cache capacity, eviction
    /// and ordering effects need more than a handful).
    pub fn many_zones(&mut self) {
        let n = 10 + self.rng.below(40) as usize;
        self.pick_zones_n(n);
    }

    /// `n` distinct catalogue zones (a shuffled prefix).
    fn distinct_zones(&mut self, n: usize) -> Vec<String> {
        let mut idx: Vec<usize> = (0..self.image.zones.len()).collect();
        let n = n.min(idx.len());
        for i in 0..n {
            let j = i + self.rng.below((idx.len() - i) as u64) as usize;
            idx.swap(i, j);
        }
        idx[..n].iter().map(|&i| self.image.zones[i].clone()).collect()
    }

    fn pick_zones(&mut self) {
        let n = 2 + self.rng.below(5) as usize;
        self.pick_zones_n(n);
    }

    fn pick_zones_n(&mut self, n: usize) {
        #[allow(unused_assignments)]
        let mut named = vec![];
        for _ in 0..n {
            named.push(self.rng.pick(&self.image.zones).clone());
        }
        if self.rng.chance(1, 3) {
            let (a, b) = *self.rng.pick(&RELATED);
            if self.image.zone(a).is_some() && self.image.zone(b).is_some() {
                named.push(a.to_string());
                named.push(b.to_string());
            }
        }
        if self.rng.chance(1, 6) {
            named.push("Pacific/Apia".into());
        }
        // a zone that has days without a local midnight (start-of-day fallback)
        if self.rng.chance(1, 4) && !self.image.midnight_gap_zones.is_empty() {
            named.push(self.rng.pick(&self.image.midnight_gap_zones).clone());
        }
        let mut zones = named.clone();
        // the posix/ and right/ (leap-second) variants of a zone, and of a
        // link to it: other files, maybe other data, under related names
        if self.rng.chance(1, 5) {
            let base = if !self.image.links.is_empty() && self.rng.chance(1, 2) {
                self.rng.pick(&self.image.links).clone()
            } else {
                self.rng.pick(&named).clone()
            };
            for prefix in ["", "right/", "posix/"] {
                let id = format!("{prefix}{base}");
                if self.image.zone(&id).is_some() && self.rng.chance(2, 3) {
                    named.push(id);
                }
            }
            zones = named.clone();
        }
        // always mixed with a fixed-offset zone, an unknown and a wrong-case name
        // a fixed-offset zone: the usual ones, or any sign / hour / minute
        let fixed = if self.rng.chance(1, 2) {
            self.rng.pick(&["+05:30", "-03:00", "+00:00", "Z"]).to_string()
        } else {
            let sign = if self.rng.chance(1, 2) { '+' } else { '-' };
            let hh = *self.rng.pick(&[0u8, 0, 0, 1, 3, 5, 9, 12, 14, 23]);
            let mm = *self.rng.pick(&[0u8, 0, 30, 45, 1, 59, 7]);
            format!("{sign}{hh:02}:{mm:02}")
        };
        zones.push(fixed);
        zones.push(self.rng.pick(&["No/Such_Zone", "Europe/Atlantis", "Mars/Olympus"]).to_string());
        let victim = self.rng.pick(&named).clone();
        zones.push(if self.rng.chance(1, 2) { victim.to_lowercase() } else { victim.to_uppercase() });
        self.named = named;
        self.zones = zones;
    }

    pub fn zone(&mut self) -> String {
        // named zones 3/4 of the time
        if self.rng.chance(3, 4) {
            self.rng.pick(&self.named).clone()
        } else {
            self.rng.pick(&self.zones).clone()
        }
    }

    /// An instant for `zone`: concentrated around its table transitions.
    pub fn instant(&mut self, zone: &str) -> i128 {
        let sub = *self.rng.pick(&SUBS);
        let r = self.rng.below(100);
        let tr: &[i64] = self.image.zone(zone).map(|z| z.transitions.as_slice()).unwrap_or(&[]);
        let gaps: &[i64] = self.image.zone(zone).map(|z| z.midnight_gaps.as_slice()).unwrap_or(&[]);
        if r < 25 && !gaps.is_empty() {
            // on, just before or just after a day whose midnight is skipped
            let t = *self.rng.pick(gaps) as i128;
            let delta = self.rng.range(-30 * 3600, 30 * 3600) as i128;
            return ((t + delta) * 1_000_000_000 + sub).clamp(-NS_MAX, NS_MAX);
        }
        if r < 60 && !tr.is_empty() {
            // modern transitions more often than 19th-century ones
            let idx = if self.rng.chance(2, 3) && tr.len() > 8 {
                tr.len() - 1 - self.rng.below((tr.len() / 2) as u64) as usize
            } else {
                self.rng.below(tr.len() as u64) as usize
            };
            let t = tr[idx] as i128;
            let delta: i128 = match self.rng.below(10) {
                0 => 0,
                1 => 1,
                2 => -1,
                3 => 3600,
                4 => -3600,
                _ => self.rng.range(-36 * 3600, 36 * 3600) as i128,
            };
            ((t + delta) * 1_000_000_000 + sub).clamp(-NS_MAX, NS_MAX)
        } else if r < 88 {
            // 1875 .. 2037
            self.rng.range(-3_000_000_000, 2_140_000_000) as i128 * 1_000_000_000 + sub
        } else if r < 96 {
            // after the table: POSIX footer territory, 2038 .. 2400
            self.rng.range(2_150_000_000, 13_500_000_000) as i128 * 1_000_000_000 + sub
        } else if r < 98 {
            // far past
            self.rng.range(-60_000_000_000, -3_000_000_000) as i128 * 1_000_000_000 + sub
        } else {
            *self.rng.pick(&[NS_MAX, -NS_MAX, NS_MAX - 1, -NS_MAX + 86_400_000_000_000, 0])
        }
    }

    pub fn op(&mut self, kind: &str) -> Op {
        let o = self.op_inner(kind);
        self.last_op = Some(o.clone());
        o
    }

    fn op_inner(&mut self, kind: &str) -> Op {
        // an exact repeat of the previous operation of the run
        if let Some(prev) = self.last_op.clone() {
            if !kind.starts_with("now.") && !prev.kind.starts_with("now.") && self.rng.chance(1, 10) {
                return prev;
            }
        }
        let reuse = if self.hot { self.rng.chance(9, 10) } else { self.rng.chance(1, 4) };
        let (zone, ns, cal) = if !self.recent.is_empty() && reuse {
            // the same receiver as an earlier operation (maybe another kind)
            self.rng.pick(&self.recent).clone()
        } else {
            let zone = self.zone();
            let ns = self.instant(&zone);
            let cal = if self.rng.chance(1, 4) { self.rng.below(ops::CALS.len() as u64) as u8 } else { 0 };
            if self.recent.len() < 12 {
                self.recent.push((zone.clone(), ns, cal));
            }
            (zone, ns, cal)
        };
        let mut o = Op::new(kind, &zone, ns);
        o.sel = self.rng.next() as u32;
        o.cal = cal;
        // distinct receiver and argument
        if matches!(kind, "zdt.since" | "zdt.until") {
            o.zone2 = if self.rng.chance(1, 2) { zone.clone() } else { self.zone() };
            let z2 = o.zone2.clone();
            o.ns2 = if self.rng.chance(1, 2) {
                ns + self.rng.range(-400 * 86_400, 400 * 86_400) as i128 * 1_000_000_000 + 7
            } else {
                self.instant(&z2)
            };
        }
        if kind.starts_with("now.") {
            self.script_world(&mut o);
        }
        o
    }

    /// Scripted clock readings and host zone for a `Now` operation.
    fn script_world(&mut self, o: &mut Op) {
        let base: i128 = match self.rng.below(20) {
            0 => -1 - self.rng.below(1_000_000_000_000) as i128, // before the epoch (F8)
            1 => NS_MAX + 1 + self.rng.below(1_000_000) as i128, // beyond the range (F8)
            2 => NS_MAX,
            3 => self.rng.below(1_000_000_000) as i128, // just after the epoch
            _ => {
                let z = o.zone.clone();
                self.instant(&z).max(0)
            }
        };
        // successive reads jump (forwards, backwards, far)
        let mut clock = vec![base];
        for _ in 0..3 {
            let d: i128 = match self.rng.below(4) {
                0 => self.rng.range(1, 1_000_000) as i128,
                1 => -(self.rng.range(1, 3_600_000_000_000) as i128),
                2 => 86_400_000_000_000 * self.rng.range(1, 400) as i128,
                _ => 1_000_000_007,
            };
            clock.push(clock.last().unwrap() + d);
        }
        o.clock = clock;
        o.host = match self.rng.below(14) {
            0 => "err".to_string(), // F9
            1 => "ok:No/Such_Zone".to_string(),
            2 => format!("ok:{}", self.rng.pick(&self.named).to_lowercase()),
            // unusual answers of the host lookup (all "unknown name" faults)
            3 => match self.rng.below(7) {
                0 => "ok:".to_string(),
                // not ASCII (a byte offset inside such a name need not be a
                // character boundary)
                6 => {
                    if self.rng.chance(1, 2) {
                        format!("ok:{}", *self.rng.pick(&["Europe/Z\u{fc}rich", "\u{30a2}\u{30b8}\u{30a2}/\u{6771}\u{4eac}", "\u{11e}", "America/S\u{e3}o_Paulo", "UTC\u{2212}03"]))
                    } else {
                        // 1..80 characters of mixed encoded width: whatever
                        // byte offset a consumer cuts at, some answer has a
                        // character straddling it
                        let n = 1 + self.rng.below(80) as usize;
                        let mut name = String::new();
                        for _ in 0..n {
                            name.push(*self.rng.pick(&['x', '/', '_', '\u{e9}', '\u{65e5}', '\u{1f30d}']));
                        }
                        format!("ok:{name}")
                    }
                }
                1 => "ok:Etc/Unknown".to_string(),
                2 => format!("ok:{}", "Very/".repeat(60)),
                3 => "ok:../../etc/passwd".to_string(),
                _ => {
                    // a real zone name, decorated the way environment
                    // variables and files in /etc sometimes are
                    let name = self.rng.pick(&self.named).clone();
                    let prefix = *self.rng.pick(&["", "", ":", " ", "/", "./", "\t", "TZ="]);
                    let suffix = *self.rng.pick(&["", "", " ", "\n", "\0", "/", ",M3.2.0"]);
                    if prefix.is_empty() && suffix.is_empty() {
                        format!("ok: {name}")
                    } else {
                        format!("ok:{prefix}{name}{suffix}")
                    }
                }
            },
            _ => format!("ok:{}", self.rng.pick(&self.named)),
        };
    }

    /// Is the scripted world of a `Now` operation faulty — a clock outside
    /// the representable range, a failing host lookup, or a host answer that
    /// does not name a zone of the database? (A valid zone, however unusual
    /// its name, and a valid reading, however far in the future, are inputs,
    /// not faults.)
    pub fn is_world_fault(o: &Op) -> bool {
        if !o.kind.starts_with("now.") {
            return false;
        }
        let bad_clock = o.clock.first().map(|c| *c < 0 || *c > NS_MAX).unwrap_or(false);
        let bad_host = match o.host.strip_prefix("ok:") {
            None => true,
            Some(name) => !crate::simenv::sim().image.resolves(name),
        };
        bad_clock || bad_host
    }

    pub fn disk_fault(&mut self, enabled: &[FaultKind]) -> Fault {
        let kind = *self.rng.pick(enabled);
        let at_permille = match self.rng.below(6) {
            0 => 0,
            1 => 1 + self.rng.below(20) as u32, // inside the first header
            2 => 1000,
            3 => 990 + self.rng.below(10) as u32,
            _ => self.rng.below(1001) as u32,
        };
        Fault { kind, at_permille, persist: self.rng.chance(1, 2) }
    }

    pub fn strategy(&mut self) -> Strategy {
        // a slow / stalled thread: stalls of 10^2..10^4 (thorough: ..10^5)
        // scheduling steps. (Much longer ones — TZSIM_STALL7_ONE_IN=<n> makes
        // one run in n stall for 10^7 steps — cost seconds per run and are
        // not part of the registered checks.)
        if let Some(rate) = std::env::var("TZSIM_STALL7_ONE_IN").ok().and_then(|s| s.parse::<u64>().ok()) {
            if self.rng.chance(1, rate.max(1)) {
                return Strategy::Stall(7);
            }
        }
        if self.thorough && self.rng.chance(1, 200) {
            return Strategy::Stall(5);
        }
        if self.rng.chance(1, 10) {
            return Strategy::Stall(*self.rng.pick(&[2u8, 3, 4]));
        }
        match self.rng.below(4) {
            0 => Strategy::Random,
            1 => Strategy::Sticky(8 + self.rng.below(7) as u8),
            2 => Strategy::Pct(1 + self.rng.below(3) as u8),
            _ => Strategy::Burst(*self.rng.pick(&[12u8, 32, 64, 160])),
        }
    }

    fn enabled_faults(&mut self) -> Vec<FaultKind> {
        let mut v: Vec<FaultKind> = DISK_FAULTS.iter().copied().filter(|_| self.rng.chance(1, 2)).collect();
        if v.is_empty() {
            v.push(*self.rng.pick(&DISK_FAULTS));
        }
        v
    }

    /// Places `n` disk faults on operations, biased toward operations that are
    /// the first of their thread to touch a named zone (cold cache).
    fn place_disk_faults(&mut self, threads: &mut [Vec<Op>], prewarm: &[String], n: usize) {
        let enabled = self.enabled_faults();
        let mut cold: Vec<(usize, usize)> = vec![];
        let mut any: Vec<(usize, usize)> = vec![];
        for (t, ops) in threads.iter().enumerate() {
            let mut seen: Vec<&str> = prewarm.iter().map(|s| s.as_str()).collect();
            for (i, o) in ops.iter().enumerate() {
                if o.kind.starts_with("inject.") || o.kind == "raw.check_identifier" {
                    continue;
                }
                if self.image.zone(&o.zone).is_none() {
                    continue;
                }
                any.push((t, i));
                if !seen.contains(&o.zone.as_str()) {
                    cold.push((t, i));
                    seen.push(&o.zone);
                }
            }
        }
        for _ in 0..n {
            let pool = if !cold.is_empty() && self.rng.chance(3, 4) { &cold } else { &any };
            if pool.is_empty() {
                return;
            }
            let (t, i) = *self.rng.pick(pool);
            threads[t][i].fault = Some(self.disk_fault(&enabled));
        }
        // a fault storm: the disk is bad for a while — several consecutive
        // cold loads fail (circuit breakers, retry counters, "degraded mode")
        if !cold.is_empty() && self.rng.chance(1, 5) {
            let len = 2 + self.rng.below(4) as usize;
            let start = self.rng.below(cold.len() as u64) as usize;
            let f = self.disk_fault(&[FaultKind::Enoent, FaultKind::Eio, FaultKind::Eacces, FaultKind::Trunc]);
            for (t, i) in cold.iter().skip(start).take(len) {
                threads[*t][*i].fault = Some(f);
            }
        }
    }

    // ------------------------------------------------------------ C20

    pub fn plan_c20(&mut self, seed: u64, thorough: bool) -> Plan {
        if self.rng.chance(1, 10) {
            self.many_zones();
        }
        let max_threads = if thorough { 6 } else { 4 };
        let n_threads = 1 + self.rng.below(max_threads) as usize;
        let max_ops = if thorough { 14 } else { 10 };
        let mut kinds: Vec<&str> = ops::all_wrapper_kinds();
        kinds.extend(ops::RAW);
        kinds.extend(ops::CORE_ONLY);
        // workload mix varies per run
        let mut focus: Vec<&str> = (0..6).map(|_| *self.rng.pick(&kinds)).collect();
        self.hot = self.rng.chance(1, 3);
        if self.hot {
            focus.truncate(1 + self.rng.below(2) as usize);
            let n = 2 + self.rng.below(3) as usize;
            self.recent.clear();
            for _ in 0..n {
                let zone = self.zone();
                let ns = self.instant(&zone);
                self.recent.push((zone, ns, 0));
            }
        }
        let hot = self.hot;
        let inject_rate = *self.rng.pick(&[0u64, 0, 1, 2, 4]); // out of 16
        let mut threads = vec![];
        for _ in 0..n_threads {
            let n = 3 + self.rng.below(max_ops - 2) as usize;
            let mut v = vec![];
            for _ in 0..n {
                if self.rng.below(16) < inject_rate {
                    v.push(Op::new(ops::INJECT_PANIC, "UTC", 0));
                    continue;
                }
                let in_focus = if hot { self.rng.chance(5, 6) } else { self.rng.chance(1, 2) };
                let k = if in_focus { *self.rng.pick(&focus) } else { *self.rng.pick(&kinds) };
                v.push(self.op(k));
            }
            threads.push(v);
        }
        let mut prewarm = vec![];
        for z in self.named.clone() {
            if self.rng.chance(1, 3) {
                prewarm.push(z);
            }
        }
        // "marathon": the process has already used very many zones (cache
        // capacity limits, eviction) — and maybe failed on one of them first
        if self.rng.chance(1, 60) {
            let n = 30 + self.rng.below(200) as usize;
            let mut many = self.distinct_zones(n);
            if self.rng.chance(1, 2) {
                let at = self.rng.below(many.len().min(4) as u64) as usize;
                many.insert(at, "No/Such_Zone".to_string());
            }
            many.extend(prewarm);
            prewarm = many;
        }
        // a third of the runs are fault-free
        if !self.rng.chance(1, 3) {
            let n = 1 + self.rng.below(3) as usize;
            self.place_disk_faults(&mut threads, &prewarm, n);
        }
        // hot runs are where narrow windows in memo / fast-path code matter:
        // give them statement points and the burst strategy more often
        let strategy = if hot && self.rng.chance(1, 2) {
            Strategy::Burst(*self.rng.pick(&[12u8, 32, 64]))
        } else {
            self.strategy()
        };
        let stmt_points = if hot { self.rng.chance(3, 4) } else { self.rng.chance(1, 2) };
        Plan {
            prop: "C20".into(),
            seed,
            threads,
            prewarm,
            strategy,
            read_yield: *self.rng.pick(&[0u32, 0, 64, 512, 1500]),
            schedule: None,
            stmt_points,
        }
    }

    // ------------------------------------------------------------ C15

    pub fn plan_c15(&mut self, seed: u64, thorough: bool) -> Plan {
        let many = self.rng.chance(1, 5);
        if many {
            self.many_zones();
        }
        let n = if many { 40 } else { 10 } + self.rng.below(if thorough { 111 } else { 51 }) as usize;
        let mut kinds: Vec<&str> = vec![];
        kinds.extend(ops::RAW);
        kinds.extend(ops::RAW); // raw queries weigh double
        kinds.extend(ops::ZDT_ACCESSORS);
        kinds.extend(ops::ZDT_METHODS);
        kinds.extend(ops::OTHER_WRAPPERS);
        kinds.extend(ops::NOW_LOCKED);
        kinds.extend(ops::CORE_ONLY);
        let mut v = vec![];
        let mut restart_rate = *self.rng.pick(&[0u64, 0, 1, 3]);
        // "marathon": one provider that resolves very many distinct zones
        // first (cache capacity limits, eviction), maybe after a failed lookup
        if self.rng.chance(1, 40) {
            restart_rate = 0;
            let n_many = 30 + self.rng.below(200) as usize;
            let many = self.distinct_zones(n_many);
            if self.rng.chance(1, 2) {
                v.push(Op::new("raw.offset", "No/Such_Zone", 0));
            }
            for z in &many {
                let ns = self.instant(z);
                let k = *self.rng.pick(&["raw.offset", "raw.offset", "raw.local", "zdt.hour"]);
                v.push(Op::new(k, z, ns));
            }
            // revisit some of them afterwards
            for _ in 0..12 {
                let z = self.rng.pick(&many).clone();
                let ns = self.instant(&z);
                v.push(Op::new("raw.offset", &z, ns));
            }
        }
        for _ in 0..n {
            if self.rng.below(40) < restart_rate {
                v.push(Op::new("restart", "UTC", 0));
                continue;
            }
            let k = *self.rng.pick(&kinds);
            v.push(self.op(k));
        }
        let mut threads = vec![v];
        if !self.rng.chance(1, 3) {
            let nf = 1 + self.rng.below(4) as usize;
            self.place_disk_faults(&mut threads, &[], nf);
        }
        Plan {
            prop: "C15".into(),
            seed,
            threads,
            prewarm: vec![],
            strategy: Strategy::Random,
            read_yield: 0,
            schedule: None,
            stmt_points: false,
        }
    }

    // ------------------------------------------------------------ C19

    pub fn plan_c19(&mut self, seed: u64, thorough: bool) -> Plan {
        let n = 8 + self.rng.below(if thorough { 60 } else { 30 }) as usize;
        let kinds = ops::all_wrapper_kinds();
        let mut v = vec![];
        let restart_rate = *self.rng.pick(&[0u64, 2, 6]);
        for _ in 0..n {
            if self.rng.below(40) < restart_rate {
                v.push(Op::new("restart", "UTC", 0));
                continue;
            }
            let k = *self.rng.pick(&kinds);
            v.push(self.op(k));
        }
        Plan {
            prop: "C19".into(),
            seed,
            threads: vec![v],
            prewarm: vec![],
            strategy: Strategy::Random,
            read_yield: 0,
            schedule: None,
            stmt_points: false,
        }
    }

    // ------------------------------------------------------------ C03

    pub fn plan_c03(&mut self, seed: u64, thorough: bool) -> Plan {
        let n_threads = 1 + self.rng.below(3) as usize;
        let max_ops = if thorough { 12 } else { 8 };
        let mut kinds = ops::all_wrapper_kinds();
        kinds.extend(ops::RAW);
        kinds.extend(ops::CORE_ONLY);
        let mut twin_kinds: Vec<&str> = vec![];
        twin_kinds.extend(ops::ZDT_ACCESSORS);
        twin_kinds.extend(ops::ZDT_METHODS);
        twin_kinds.extend(ops::OTHER_WRAPPERS);
        twin_kinds.extend(ops::NOW_LOCKED);
        twin_kinds.extend(ops::CORE_ONLY);
        let inject_rate = *self.rng.pick(&[0u64, 1, 3]);
        let f10_rate = *self.rng.pick(&[0u64, 2, 5]);
        let mut threads = vec![];
        for _ in 0..n_threads {
            let n = 2 + self.rng.below(max_ops - 1) as usize;
            let mut v = vec![];
            for _ in 0..n {
                let r = self.rng.below(16);
                if r < inject_rate {
                    v.push(Op::new(ops::INJECT_PANIC, "UTC", 0));
                } else if r < inject_rate + f10_rate {
                    let k = *self.rng.pick(&twin_kinds);
                    let mut o = self.op(k);
                    o.fail_at = 1 + self.rng.below(8) as u32;
                    if self.rng.chance(1, 3) {
                        o.fail_at |= 0x100; // stays broken from that call on
                    }
                    v.push(o);
                } else {
                    let k = *self.rng.pick(&kinds);
                    v.push(self.op(k));
                }
            }
            threads.push(v);
        }
        // C03 is about faults: every run carries some
        let n = 1 + self.rng.below(4) as usize;
        self.place_disk_faults(&mut threads, &[], n);
        Plan {
            prop: "C03".into(),
            seed,
            threads,
            prewarm: vec![],
            strategy: self.strategy(),
            read_yield: *self.rng.pick(&[0u32, 0, 512]),
            schedule: None,
            stmt_points: self.rng.chance(1, 3),
        }
    }
}
