//! The workload: every public operation that reaches one of the three
//! environment-facing surfaces (process-wide provider, zoneinfo files,
//! clock / host zone), each paired with its provider-taking twin.

use crate::simenv::{self, sim, Fault, OpCtx, SimAbort};
use std::cell::RefCell;
use std::fmt::Debug;
use std::fmt::Write as _;
use std::panic::{catch_unwind, resume_unwind, AssertUnwindSafe};
use std::str::FromStr;
use temporal_rs::options::*;
use temporal_rs::parsers::Precision;
use temporal_rs::provider::{TimeZoneProvider, TransitionDirection};
use temporal_rs::time::EpochNanoseconds;
use temporal_rs::tzdb::FsTzdbProvider;
use temporal_rs::*;

// ------------------------------------------------------------- outcome

#[derive(Clone, Debug, PartialEq, Eq)]
pub enum Outcome {
    Ok(String),
    /// (error kind, message)
    Err(String, String),
    /// panic class: "<file>: <message with digits normalised>"
    Panic(String),
}

impl Outcome {
    /// Equality used by the oracles: values exactly; errors by kind (the
    /// properties speak of "same error kind"); a panic equals any panic.
    pub fn same(&self, other: &Outcome) -> bool {
        match (self, other) {
            (Outcome::Ok(a), Outcome::Ok(b)) => a == b,
            // "Env": an error of the environment model (clock before the
            // epoch, host zone lookup failed); which kind the library reports
            // for it is its own choice — any error matches
            (Outcome::Err(a, _), Outcome::Err(b, _)) => a == b || a == "Env" || b == "Env",
            (Outcome::Panic(_), Outcome::Panic(_)) => true,
            _ => false,
        }
    }
    pub fn category(&self) -> String {
        match self {
            Outcome::Ok(_) => "value".into(),
            Outcome::Err(k, m) => {
                if m.contains("Unable to acquire lock") {
                    "error:lock".into()
                } else {
                    format!("error:{k}")
                }
            }
            Outcome::Panic(_) => "panic".into(),
        }
    }
    pub fn is_panic(&self) -> bool {
        matches!(self, Outcome::Panic(_))
    }
    pub fn is_generic_err(&self) -> bool {
        matches!(self, Outcome::Err(k, _) if k == "Generic")
    }
    pub fn show(&self) -> String {
        match self {
            Outcome::Ok(s) => format!("Ok({s})"),
            Outcome::Err(k, m) => format!("Err({k}: {m})"),
            Outcome::Panic(c) => format!("PANIC[{c}]"),
        }
    }
}

fn out<T: Debug>(r: TemporalResult<T>) -> Outcome {
    match r {
        Ok(v) => Outcome::Ok(format!("{v:?}")),
        Err(e) if e.message().starts_with("environment-model:") => {
            Outcome::Err("Env".to_string(), e.message().to_string())
        }
        Err(e) => Outcome::Err(format!("{:?}", e.kind()), e.message().to_string()),
    }
}

thread_local! {
    static LAST_PANIC: RefCell<Option<String>> = const { RefCell::new(None) };
}

/// Installs a quiet panic hook that remembers where and why the last panic
/// of the thread happened.
pub fn install_panic_hook() {
    std::panic::set_hook(Box::new(|info| {
        if info.payload().is::<SimAbort>() {
            return;
        }
        let msg = if let Some(s) = info.payload().downcast_ref::<&str>() {
            s.to_string()
        } else if let Some(s) = info.payload().downcast_ref::<String>() {
            s.clone()
        } else {
            "<non-string payload>".to_string()
        };
        let file = info
            .location()
            .map(|l| {
                let f = l.file();
                // keep the path from "src/" on, drop line numbers
                match f.rfind("/src/") {
                    Some(i) => f[i + 1..].to_string(),
                    None => f.rsplit('/').next().unwrap_or(f).to_string(),
                }
            })
            .unwrap_or_default();
        let mut norm = String::new();
        let mut last_digit = false;
        for ch in msg.chars().take(120) {
            if ch.is_ascii_digit() {
                if !last_digit {
                    norm.push('#');
                }
                last_digit = true;
            } else {
                norm.push(ch);
                last_digit = false;
            }
        }
        LAST_PANIC.with(|p| *p.borrow_mut() = Some(format!("{file}: {norm}")));
    }));
}

// ------------------------------------------------------------------ op

pub const CALS: [&str; 6] = ["iso8601", "gregory", "japanese", "hebrew", "buddhist", "chinese"];

#[derive(Clone, Debug, PartialEq)]
pub struct Op {
    pub kind: String,
    pub zone: String,
    pub ns: i128,
    pub cal: u8,
    pub zone2: String,
    pub ns2: i128,
    /// Selects options / durations / strings from small fixed tables.
    pub sel: u32,
    /// Scripted clock readings (ns relative to the epoch), one per read.
    pub clock: Vec<i128>,
    /// "ok:<zone>" or "err".
    pub host: String,
    pub fault: Option<Fault>,
    /// F10: execute the twin on an embedder provider whose k-th call fails
    /// (0 = not used).
    pub fail_at: u32,
}

impl Op {
    pub fn new(kind: &str, zone: &str, ns: i128) -> Op {
        Op {
            kind: kind.to_string(),
            zone: zone.to_string(),
            ns,
            cal: 0,
            zone2: zone.to_string(),
            ns2: ns,
            sel: 0,
            clock: vec![],
            host: "ok:UTC".into(),
            fault: None,
            fail_at: 0,
        }
    }
    pub fn show(&self) -> String {
        let mut s = format!("{}({} @{}", self.kind, self.zone, self.ns);
        if self.cal != 0 {
            let _ = write!(s, " cal={}", CALS[self.cal as usize % CALS.len()]);
        }
        if self.zone2 != self.zone || self.ns2 != self.ns {
            let _ = write!(s, " | {} @{}", self.zone2, self.ns2);
        }
        if self.sel != 0 {
            let _ = write!(s, " sel={}", self.sel);
        }
        if !self.clock.is_empty() {
            let _ = write!(s, " clock={:?} host={:?}", self.clock, self.host);
        }
        if let Some(f) = &self.fault {
            let _ = write!(s, " fault={}@{}{}", f.kind.name(), f.at_permille, if f.persist { "!" } else { "" });
        }
        if self.fail_at > 0 {
            let _ = write!(
                s,
                " provider-fails-{}-call={}",
                if self.fail_at & 0x100 != 0 { "from" } else { "at" },
                self.fail_at & 0xff
            );
        }
        s.push(')');
        s
    }
    pub fn family(&self) -> &'static str {
        let k = self.kind.as_str();
        if ZDT_ACCESSORS.contains(&k) {
            "zdt-accessor"
        } else if k.starts_with("zdt.") {
            "zdt-method"
        } else if k.starts_with("duration.") {
            "duration"
        } else if k.starts_with("now.") {
            "now"
        } else if k.starts_with("raw.") {
            "raw-query"
        } else if k.starts_with("core.") {
            "core-only"
        } else if k.starts_with("inject.") {
            "inject"
        } else {
            "other-wrapper"
        }
    }
}

/// F10: an embedder's provider that fails at its k-th call (1-based) and
/// forwards everything else to a real `FsTzdbProvider`.
pub struct FailingProvider {
    pub inner: FsTzdbProvider,
    pub fail_at: u32,
    pub calls: std::cell::Cell<u32>,
    pub fired: std::cell::Cell<bool>,
}
impl FailingProvider {
    pub fn new(fail_at: u32) -> Self {
        Self {
            inner: FsTzdbProvider::default(),
            fail_at,
            calls: Default::default(),
            fired: Default::default(),
        }
    }
    /// `fail_at` = k: only the k-th call fails (transient failure);
    /// `fail_at` = 256 + k: every call from the k-th on fails (the provider
    /// stays broken).
    fn tick(&self) -> TemporalResult<()> {
        self.calls.set(self.calls.get() + 1);
        let (k, persistent) = (self.fail_at & 0xff, self.fail_at & 0x100 != 0);
        if self.calls.get() == k || (persistent && self.calls.get() > k) {
            self.fired.set(true);
            return Err(TemporalError::general("injected provider failure"));
        }
        Ok(())
    }
}
impl TimeZoneProvider for FailingProvider {
    fn check_identifier(&self, identifier: &str) -> bool {
        self.inner.check_identifier(identifier)
    }
    fn get_named_tz_epoch_nanoseconds(
        &self,
        identifier: &str,
        local_datetime: temporal_rs::iso::IsoDateTime,
    ) -> TemporalResult<Vec<EpochNanoseconds>> {
        self.tick()?;
        self.inner.get_named_tz_epoch_nanoseconds(identifier, local_datetime)
    }
    fn get_named_tz_offset_nanoseconds(
        &self,
        identifier: &str,
        epoch_nanoseconds: i128,
    ) -> TemporalResult<temporal_rs::provider::TimeZoneOffset> {
        self.tick()?;
        self.inner.get_named_tz_offset_nanoseconds(identifier, epoch_nanoseconds)
    }
    fn get_named_tz_transition(
        &self,
        identifier: &str,
        epoch_nanoseconds: i128,
        direction: TransitionDirection,
    ) -> TemporalResult<Option<EpochNanoseconds>> {
        self.tick()?;
        self.inner.get_named_tz_transition(identifier, epoch_nanoseconds, direction)
    }
}

pub enum Mode<'a, P: TimeZoneProvider> {
    /// The convenience API (process-wide provider, real lock, `sys`).
    Wrapper,
    /// The provider-taking twin on the given provider.
    Twin(&'a P),
}

/// Accessor-like wrappers: receiver only.
pub const ZDT_ACCESSORS: [&str; 24] = [
    "zdt.year",
    "zdt.month",
    "zdt.month_code",
    "zdt.day",
    "zdt.hour",
    "zdt.minute",
    "zdt.second",
    "zdt.millisecond",
    "zdt.microsecond",
    "zdt.nanosecond",
    "zdt.offset",
    "zdt.offset_nanoseconds",
    "zdt.era",
    "zdt.era_year",
    "zdt.day_of_week",
    "zdt.day_of_year",
    "zdt.week_of_year",
    "zdt.year_of_week",
    "zdt.days_in_week",
    "zdt.days_in_month",
    "zdt.days_in_year",
    "zdt.months_in_year",
    "zdt.in_leap_year",
    "zdt.hours_in_day",
];
pub const ZDT_METHODS: [&str; 13] = [
    "zdt.get_time_zone_transition",
    "zdt.with_plain_time",
    "zdt.add",
    "zdt.subtract",
    "zdt.since",
    "zdt.until",
    "zdt.start_of_day",
    "zdt.to_plain_date",
    "zdt.to_plain_time",
    "zdt.to_plain_datetime",
    "zdt.to_ixdtf_string",
    "zdt.from_str",
    "zdt.display",
];
pub const OTHER_WRAPPERS: [&str; 6] = [
    "duration.round",
    "duration.compare",
    "duration.total",
    "instant.to_ixdtf_string",
    "pdt.to_zoned_date_time",
    "relative_to.try_from_str",
];
/// Lock + clock + host zone.
pub const NOW_LOCKED: [&str; 3] = ["now.plain_datetime_iso", "now.plain_date_iso", "now.plain_time_iso"];
/// Clock / host zone only.
pub const NOW_FREE: [&str; 3] = ["now.zoneddatetime_iso", "now.instant", "now.time_zone_identifier"];
/// Raw provider queries.
pub const RAW: [&str; 3] = ["raw.check_identifier", "raw.offset", "raw.local"];
/// Provider-taking core operations that have no convenience wrapper; like the
/// raw queries they reach the shared provider through `with_shared_provider`.
pub const CORE_ONLY: [&str; 2] = ["core.pd.to_zoned_date_time", "core.zdt.from_partial"];
/// Fault F7: a call that panics while holding the shared provider.
pub const INJECT_PANIC: &str = "inject.panic_holding_provider";

pub fn all_wrapper_kinds() -> Vec<&'static str> {
    let mut v: Vec<&'static str> = vec![];
    v.extend(ZDT_ACCESSORS);
    v.extend(ZDT_METHODS);
    v.extend(OTHER_WRAPPERS);
    v.extend(NOW_LOCKED);
    v.extend(NOW_FREE);
    v
}

// ------------------------------------------------------- arg builders

fn tz(zone: &str) -> TimeZone {
    if zone.starts_with('+') || zone.starts_with('-') || zone == "Z" {
        if let Ok(t) = TimeZone::try_from_str(zone) {
            return t;
        }
    }
    TimeZone::IanaIdentifier(zone.to_string())
}
/// Minutes east of Greenwich of a zone spelled `±HH:MM`.
fn fixed_offset_minutes(zone: &str) -> Option<i64> {
    let b = zone.as_bytes();
    if b.len() != 6 || b[3] != b':' || !(b[0] == b'+' || b[0] == b'-') {
        return None;
    }
    let h: i64 = zone[1..3].parse().ok()?;
    let m: i64 = zone[4..6].parse().ok()?;
    Some(if b[0] == b'-' { -(h * 60 + m) } else { h * 60 + m })
}
fn cal(i: u8) -> Calendar {
    Calendar::from_str(CALS[i as usize % CALS.len()]).unwrap_or_default()
}
fn zdt(zone: &str, ns: i128, c: u8) -> TemporalResult<ZonedDateTime> {
    ZonedDateTime::try_new(ns, cal(c), tz(zone))
}

const UNITS: [Unit; 10] = [
    Unit::Nanosecond,
    Unit::Microsecond,
    Unit::Millisecond,
    Unit::Second,
    Unit::Minute,
    Unit::Hour,
    Unit::Day,
    Unit::Week,
    Unit::Month,
    Unit::Year,
];
const MODES: [RoundingMode; 9] = [
    RoundingMode::Ceil,
    RoundingMode::Floor,
    RoundingMode::Expand,
    RoundingMode::Trunc,
    RoundingMode::HalfCeil,
    RoundingMode::HalfFloor,
    RoundingMode::HalfExpand,
    RoundingMode::HalfTrunc,
    RoundingMode::HalfEven,
];

/// Decodes an operation's selector into option values. `sel == 0` always
/// decodes to the plainest choice (index 0 of every table), which is what the
/// shrinker simplifies towards; every other value is a seed for an independent
/// stream per builder (`salt`), so the whole option space is reachable.
struct Sel {
    rng: crate::rng::Rng,
    zero: bool,
}
impl Sel {
    fn new(sel: u32, salt: u64) -> Self {
        Sel { rng: crate::rng::Rng::derive(sel as u64, salt, 0x5e1), zero: sel == 0 }
    }
    fn below(&mut self, n: u64) -> u64 {
        if self.zero {
            0
        } else {
            self.rng.below(n)
        }
    }
    fn pick<T: Copy>(&mut self, xs: &[T]) -> T {
        xs[self.below(xs.len() as u64) as usize]
    }
}

/// Non-zero durations (all fields of one duration share a sign).
fn duration(sel: u32) -> TemporalResult<Duration> {
    let mut s = Sel::new(sel, 1);
    const V: [i32; 16] = [0, 0, 0, 0, 1, 2, 3, 5, 7, 10, 24, 30, 59, 100, 365, 1000];
    let mut row = [0i32; 10];
    // most durations are sparse: pick how many fields are set
    let filled = 1 + s.below(4) as usize + if s.below(8) == 7 { 6 } else { 0 };
    for _ in 0..filled {
        let i = s.below(10) as usize;
        row[i] = s.pick(&V);
    }
    if row.iter().all(|x| *x == 0) {
        row[3] = 1;
    }
    let sign = if s.below(3) == 2 { -1 } else { 1 };
    let f = |i: usize| FiniteF64::from(row[i] * sign);
    Duration::new(f(0), f(1), f(2), f(3), f(4), f(5), f(6), f(7), f(8), f(9))
}
use temporal_rs::primitive::FiniteF64;

const INCREMENTS: [u32; 16] = [0, 1, 2, 3, 4, 5, 6, 8, 10, 12, 15, 20, 30, 60, 100, 500];

fn diff_settings(sel: u32) -> DifferenceSettings {
    let mut x = Sel::new(sel, 2);
    let mut s = DifferenceSettings::default();
    let a = x.below(11);
    let b = x.below(11);
    if a > 0 {
        s.largest_unit = Some(UNITS[(a - 1) as usize]);
    }
    if b > 0 {
        s.smallest_unit = Some(UNITS[(b - 1) as usize]);
    }
    // half of the time make the pair consistent (largest >= smallest), so
    // that the call gets past validation
    if x.below(2) == 1 {
        if let (Some(l), Some(sm)) = (s.largest_unit, s.smallest_unit) {
            if l < sm {
                s.largest_unit = Some(sm);
                s.smallest_unit = Some(l);
            }
        }
    }
    let m = x.below(10);
    if m > 0 {
        s.rounding_mode = Some(MODES[(m - 1) as usize]);
    }
    let inc = x.pick(&INCREMENTS);
    if inc > 0 {
        s.increment = RoundingIncrement::try_new(inc).ok();
    }
    s
}
fn rounding_options(sel: u32) -> RoundingOptions {
    let d = diff_settings(sel ^ 0x55aa);
    let mut o = RoundingOptions::default();
    o.largest_unit = d.largest_unit;
    o.smallest_unit = d.smallest_unit.or(Some(Unit::Hour));
    o.rounding_mode = d.rounding_mode;
    o.increment = d.increment;
    o
}
fn to_string_options(sel: u32) -> ToStringRoundingOptions {
    let mut x = Sel::new(sel, 3);
    let precision = match x.below(4) {
        0 => Precision::Auto,
        1 => Precision::Minute,
        _ => Precision::Digit(x.below(10) as u8),
    };
    let smallest_unit = match x.below(8) {
        0 | 1 | 2 => None,
        3 => Some(Unit::Minute),
        4 => Some(Unit::Second),
        5 => Some(Unit::Millisecond),
        6 => Some(Unit::Microsecond),
        _ => Some(Unit::Hour), // invalid on purpose: RangeError on both sides
    };
    let m = x.below(10);
    let rounding_mode = if m > 0 { Some(MODES[(m - 1) as usize]) } else { None };
    ToStringRoundingOptions { precision, smallest_unit, rounding_mode }
}
fn display_opts(sel: u32) -> (DisplayOffset, DisplayTimeZone, DisplayCalendar) {
    let mut x = Sel::new(sel, 4);
    let o = x.pick(&[DisplayOffset::Auto, DisplayOffset::Never]);
    let t = x.pick(&[DisplayTimeZone::Auto, DisplayTimeZone::Never, DisplayTimeZone::Critical]);
    let c = x.pick(&[
        DisplayCalendar::Auto,
        DisplayCalendar::Always,
        DisplayCalendar::Never,
        DisplayCalendar::Critical,
    ]);
    (o, t, c)
}
const DISAMB: [Disambiguation; 4] =
    [Disambiguation::Compatible, Disambiguation::Earlier, Disambiguation::Later, Disambiguation::Reject];
const OFFDIS: [OffsetDisambiguation; 4] = [
    OffsetDisambiguation::Use,
    OffsetDisambiguation::Prefer,
    OffsetDisambiguation::Ignore,
    OffsetDisambiguation::Reject,
];

/// Civil date-time (UTC) of an epoch-nanosecond value; own arithmetic
/// (Howard Hinnant's civil_from_days), independent of the crate under test.
pub fn civil(ns: i128) -> (i32, u8, u8, u8, u8, u8, u16, u16, u16) {
    let secs = ns.div_euclid(1_000_000_000);
    let sub = ns.rem_euclid(1_000_000_000) as u32;
    let days = secs.div_euclid(86_400) as i64;
    let sod = secs.rem_euclid(86_400) as u32;
    let z = days + 719_468;
    let era = z.div_euclid(146_097);
    let doe = z.rem_euclid(146_097);
    let yoe = (doe - doe / 1_460 + doe / 36_524 - doe / 146_096) / 365;
    let y = yoe + era * 400;
    let doy = doe - (365 * yoe + yoe / 4 - yoe / 100);
    let mp = (5 * doy + 2) / 153;
    let d = (doy - (153 * mp + 2) / 5 + 1) as u8;
    let m = (if mp < 10 { mp + 3 } else { mp - 9 }) as u8;
    let y = (y + if m <= 2 { 1 } else { 0 }) as i32;
    (
        y,
        m,
        d,
        (sod / 3600) as u8,
        ((sod / 60) % 60) as u8,
        (sod % 60) as u8,
        (sub / 1_000_000) as u16,
        ((sub / 1_000) % 1_000) as u16,
        (sub % 1_000) as u16,
    )
}

/// An IXDTF string whose wall-clock fields are the UTC fields of `ns`.
fn ixdtf(ns: i128, zone: &str, sel: u32) -> String {
    let (y, mo, d, h, mi, s, ms, us, n) = civil(ns);
    let mut x = Sel::new(sel, 6);
    let mut out = String::new();
    if (0..=9999).contains(&y) {
        let _ = write!(out, "{y:04}");
    } else {
        let _ = write!(out, "{}{:06}", if y < 0 { '-' } else { '+' }, y.abs());
    }
    // date: extended or basic format
    let basic = x.below(8) == 7;
    if basic {
        let _ = write!(out, "{mo:02}{d:02}");
    } else {
        let _ = write!(out, "-{mo:02}-{d:02}");
    }
    // time: present or not, separator T / t / space, precision
    let with_time = x.below(8) != 7;
    if with_time {
        out.push(x.pick(&['T', 'T', 'T', 't', ' ']));
        let sep = if basic { "" } else { ":" };
        let _ = write!(out, "{h:02}{sep}{mi:02}");
        match x.below(6) {
            0 => {}
            1 => {
                let _ = write!(out, "{sep}{s:02}");
            }
            2 => {
                let _ = write!(out, "{sep}{s:02}.{ms:03}");
            }
            3 => {
                let _ = write!(out, "{sep}{s:02},{ms:03}{us:03}");
            }
            _ => {
                let _ = write!(out, "{sep}{s:02}.{ms:03}{us:03}{n:03}");
            }
        }
        // offset
        match x.below(9) {
            0 | 1 => {}
            2 => out.push('Z'),
            3 => out.push('z'),
            4 => out.push_str("+00:00"),
            5 => out.push_str("-05:00"),
            6 => out.push_str("+01:00"),
            7 => out.push_str("-0400"),
            _ => out.push_str("+05:30:00.000000001"),
        }
    }
    // time zone annotation (sometimes critical), calendar annotation(s)
    if x.below(10) == 9 {
        let _ = write!(out, "[!{zone}]");
    } else {
        let _ = write!(out, "[{zone}]");
    }
    match x.below(8) {
        0 => out.push_str("[u-ca=gregory]"),
        1 => out.push_str("[!u-ca=iso8601]"),
        2 => out.push_str("[u-ca=japanese]"),
        3 => out.push_str("[u-ca=hebrew][u-ca=gregory]"),
        4 => out.push_str("[foo=bar]"),
        5 => out.push_str("[!foo=bar]"),
        _ => {}
    }
    out
}

fn plain_time(sel: u32) -> TemporalResult<PlainTime> {
    let mut x = Sel::new(sel, 5);
    let h = x.pick(&[0u8, 1, 2, 3, 12, 23]);
    let m = x.pick(&[0u8, 30, 59, 7]);
    let sec = x.pick(&[0u8, 59, 41]);
    let ms = x.pick(&[0u16, 999, 123]);
    let us = x.pick(&[0u16, 999, 456]);
    let ns = x.pick(&[0u16, 999, 789]);
    PlainTime::try_new(h, m, sec, ms, us, ns)
}

/// What `sys.rs` is specified to do with a clock reading: before the epoch is
/// a generic error, anything else is the nanosecond count.
const ENV_ERR: &str = "environment-model:";
fn model_system_nanos(reading: i128) -> TemporalResult<u128> {
    if reading < 0 {
        Err(TemporalError::general(format!("{ENV_ERR} clock before the Unix epoch")))
    } else {
        Ok(reading as u128)
    }
}
fn model_host_tz(host: &str) -> TemporalResult<String> {
    match host.strip_prefix("ok:") {
        Some(n) => Ok(n.to_string()),
        None => Err(TemporalError::general(format!("{ENV_ERR} host time zone unavailable"))),
    }
}

// ---------------------------------------------------------------- exec

pub struct ExecInfo {
    pub outcome: Outcome,
    pub fault_fired: bool,
    pub opens: u32,
    pub clock_reads: usize,
    pub host_reads: usize,
    pub bytes_read: u64,
    pub persist_hits: u32,
}

/// Executes `op` on the calling thread. `with_fault`: honour `op.fault`.
pub fn exec<P: TimeZoneProvider>(op: &Op, mode: Mode<'_, P>, with_fault: bool) -> ExecInfo {
    let ctx = OpCtx {
        fault: if with_fault { op.fault } else { None },
        clock: op.clock.clone(),
        host: op.host.clone(),
        ..Default::default()
    };
    let saved = simenv::set_ctx(Some(ctx));
    LAST_PANIC.with(|p| *p.borrow_mut() = None);
    let r = catch_unwind(AssertUnwindSafe(|| exec_inner(op, mode)));
    let ctx = simenv::set_ctx(saved).unwrap_or_default();
    let outcome = match r {
        Ok(o) => o,
        Err(payload) => {
            if payload.is::<SimAbort>() {
                resume_unwind(payload);
            }
            let class = LAST_PANIC.with(|p| p.borrow_mut().take()).unwrap_or_else(|| "?".into());
            Outcome::Panic(class)
        }
    };
    ExecInfo {
        outcome,
        fault_fired: ctx.fault_fired,
        opens: ctx.opens,
        clock_reads: ctx.clock_reads,
        host_reads: ctx.host_reads,
        bytes_read: ctx.bytes_read,
        persist_hits: ctx.persist_hits,
    }
}

macro_rules! wt {
    ($mode:ident, $p:ident => $w:expr, $t:expr) => {
        match $mode {
            Mode::Wrapper => out($w),
            Mode::Twin($p) => out($t),
        }
    };
}

fn exec_inner<P: TimeZoneProvider>(op: &Op, mode: Mode<'_, P>) -> Outcome {
    let k = op.kind.as_str();
    if let Some(acc) = k.strip_prefix("zdt.") {
        let z = match zdt(&op.zone, op.ns, op.cal) {
            Ok(z) => z,
            Err(e) => return out::<()>(Err(e)),
        };
        return match acc {
            "year" => wt!(mode, p => z.year(), z.year_with_provider(p)),
            "month" => wt!(mode, p => z.month(), z.month_with_provider(p)),
            "month_code" => wt!(mode, p => z.month_code(), z.month_code_with_provider(p)),
            "day" => wt!(mode, p => z.day(), z.day_with_provider(p)),
            "hour" => wt!(mode, p => z.hour(), z.hour_with_provider(p)),
            "minute" => wt!(mode, p => z.minute(), z.minute_with_provider(p)),
            "second" => wt!(mode, p => z.second(), z.second_with_provider(p)),
            "millisecond" => wt!(mode, p => z.millisecond(), z.millisecond_with_provider(p)),
            "microsecond" => wt!(mode, p => z.microsecond(), z.microsecond_with_provider(p)),
            "nanosecond" => wt!(mode, p => z.nanosecond(), z.nanosecond_with_provider(p)),
            "offset" => wt!(mode, p => z.offset(), z.offset_with_provider(p)),
            "offset_nanoseconds" => {
                wt!(mode, p => z.offset_nanoseconds(), z.offset_nanoseconds_with_provider(p))
            }
            "era" => wt!(mode, p => z.era(), z.era_with_provider(p)),
            "era_year" => wt!(mode, p => z.era_year(), z.era_year_with_provider(p)),
            "day_of_week" => wt!(mode, p => z.day_of_week(), z.day_of_week_with_provider(p)),
            "day_of_year" => wt!(mode, p => z.day_of_year(), z.day_of_year_with_provider(p)),
            "week_of_year" => wt!(mode, p => z.week_of_year(), z.week_of_year_with_provider(p)),
            "year_of_week" => wt!(mode, p => z.year_of_week(), z.year_of_week_with_provider(p)),
            "days_in_week" => wt!(mode, p => z.days_in_week(), z.days_in_week_with_provider(p)),
            "days_in_month" => wt!(mode, p => z.days_in_month(), z.days_in_month_with_provider(p)),
            "days_in_year" => wt!(mode, p => z.days_in_year(), z.days_in_year_with_provider(p)),
            "months_in_year" => {
                wt!(mode, p => z.months_in_year(), z.months_in_year_with_provider(p))
            }
            "in_leap_year" => wt!(mode, p => z.in_leap_year(), z.in_leap_year_with_provider(p)),
            "hours_in_day" => wt!(mode, p => z.hours_in_day(), z.hours_in_day_with_provider(p)),
            "get_time_zone_transition" => {
                let dir = if op.sel % 2 == 0 {
                    TransitionDirection::Next
                } else {
                    TransitionDirection::Previous
                };
                wt!(mode, p => z.get_time_zone_transition(dir), z.get_time_zone_transition_with_provider(dir, p))
            }
            "with_plain_time" => {
                let t = match plain_time(op.sel) {
                    Ok(t) => t,
                    Err(e) => return out::<()>(Err(e)),
                };
                wt!(mode, p => z.with_plain_time(t), z.with_plain_time_and_provider(t, p))
            }
            "add" | "subtract" => {
                let d = match duration(op.sel) {
                    Ok(d) => d,
                    Err(e) => return out::<()>(Err(e)),
                };
                let ov = match (op.sel / 16) % 3 {
                    0 => None,
                    1 => Some(ArithmeticOverflow::Constrain),
                    _ => Some(ArithmeticOverflow::Reject),
                };
                if acc == "add" {
                    wt!(mode, p => z.add(&d, ov), z.add_with_provider(&d, ov, p))
                } else {
                    wt!(mode, p => z.subtract(&d, ov), z.subtract_with_provider(&d, ov, p))
                }
            }
            "since" | "until" => {
                let other = match zdt(&op.zone2, op.ns2, op.cal) {
                    Ok(z) => z,
                    Err(e) => return out::<()>(Err(e)),
                };
                let s = diff_settings(op.sel);
                if acc == "since" {
                    wt!(mode, p => z.since(&other, s), z.since_with_provider(&other, s, p))
                } else {
                    wt!(mode, p => z.until(&other, s), z.until_with_provider(&other, s, p))
                }
            }
            "start_of_day" => wt!(mode, p => z.start_of_day(), z.start_of_day_with_provider(p)),
            "to_plain_date" => wt!(mode, p => z.to_plain_date(), z.to_plain_date_with_provider(p)),
            "to_plain_time" => wt!(mode, p => z.to_plain_time(), z.to_plain_time_with_provider(p)),
            "to_plain_datetime" => {
                wt!(mode, p => z.to_plain_datetime(), z.to_plain_datetime_with_provider(p))
            }
            "to_ixdtf_string" => {
                let (o, t, c) = display_opts(op.sel);
                wt!(mode, p => z.to_ixdtf_string(o, t, c, to_string_options(op.sel)),
                    z.to_ixdtf_string_with_provider(o, t, c, to_string_options(op.sel), p))
            }
            "from_str" => {
                let s = ixdtf(op.ns, &op.zone, op.sel);
                let d = DISAMB[(op.sel % 4) as usize];
                let o = OFFDIS[((op.sel / 4) % 4) as usize];
                wt!(mode, p => ZonedDateTime::from_str(&s, d, o),
                    ZonedDateTime::from_str_with_provider(&s, d, o, p))
            }
            "display" => match mode {
                Mode::Wrapper => {
                    let mut s = String::new();
                    match write!(s, "{z}") {
                        Ok(()) => Outcome::Ok(format!("{s:?}")),
                        // Display can only say "failed"; the twin's error is
                        // whatever the provider reported: a generic error.
                        Err(_) => Outcome::Err("Generic".into(), "fmt::Error".into()),
                    }
                }
                Mode::Twin(p) => match z.to_string_with_provider(p) {
                    Ok(s) => Outcome::Ok(format!("{s:?}")),
                    Err(e) => Outcome::Err("Generic".into(), e.message().to_string()),
                },
            },
            _ => Outcome::Err("Harness".into(), format!("unknown op {k}")),
        };
    }
    match k {
        "duration.round" | "duration.compare" | "duration.total" => {
            let d = match duration(op.sel) {
                Ok(d) => d,
                Err(e) => return out::<()>(Err(e)),
            };
            // relativeTo: mostly a zoned date-time (the case that needs the
            // provider), sometimes a plain date, sometimes none
            let rel = match Sel::new(op.sel, 7).below(20) {
                0 | 1 | 2 => None,
                3..=7 => {
                    let (y, mo, d, ..) = civil(op.ns);
                    match PlainDate::try_new(y, mo, d, cal(op.cal)) {
                        Ok(pd) => Some(RelativeTo::PlainDate(pd)),
                        Err(e) => return out::<()>(Err(e)),
                    }
                }
                _ => match zdt(&op.zone, op.ns, op.cal) {
                    Ok(z) => Some(RelativeTo::ZonedDateTime(z)),
                    Err(e) => return out::<()>(Err(e)),
                },
            };
            match k {
                "duration.round" => {
                    let o = rounding_options(op.sel / 16);
                    wt!(mode, p => d.round(o, rel), d.round_with_provider(o, rel, p))
                }
                "duration.compare" => {
                    let two = match duration(op.sel / 16 + 3) {
                        Ok(d) => d,
                        Err(e) => return out::<()>(Err(e)),
                    };
                    wt!(mode, p => d.compare(&two, rel), d.compare_with_provider(&two, rel, p))
                }
                _ => {
                    let u = UNITS[((op.sel / 16) % 10) as usize];
                    wt!(mode, p => d.total(u, rel), d.total_with_provider(u, rel, p))
                }
            }
        }
        "instant.to_ixdtf_string" => {
            let i = match Instant::try_new(op.ns) {
                Ok(i) => i,
                Err(e) => return out::<()>(Err(e)),
            };
            let t = tz(&op.zone);
            let t = if op.sel % 7 == 6 { None } else { Some(&t) };
            wt!(mode, p => i.to_ixdtf_string(t, to_string_options(op.sel)),
                i.to_ixdtf_string_with_provider(t, to_string_options(op.sel), p))
        }
        "pdt.to_zoned_date_time" => {
            // The receiver is the UTC reading of the instant or, for a
            // fixed-offset zone half of the time, its *local* reading in that
            // zone (which, next to the limits of the instant range, lies in
            // the extra day that only plain date-times can represent).
            let local = match fixed_offset_minutes(&op.zone) {
                Some(m) if (op.sel >> 2) % 2 == 1 => op.ns + m as i128 * 60_000_000_000,
                _ => op.ns,
            };
            let (y, mo, d, h, mi, s, ms, us, n) = civil(local);
            let pdt = match PlainDateTime::try_new(y, mo, d, h, mi, s, ms, us, n, cal(op.cal)) {
                Ok(x) => x,
                Err(e) => return out::<()>(Err(e)),
            };
            let t = tz(&op.zone);
            let dis = DISAMB[(op.sel % 4) as usize];
            wt!(mode, p => pdt.to_zoned_date_time(&t, dis),
                pdt.to_zoned_date_time_with_provider(&t, dis, p))
        }
        "relative_to.try_from_str" => {
            let s = ixdtf(op.ns, &op.zone, op.sel);
            let f = |r: TemporalResult<RelativeTo>| {
                out(r.map(|r| match r {
                    RelativeTo::PlainDate(d) => format!("{d:?}"),
                    RelativeTo::ZonedDateTime(z) => format!("{z:?}"),
                }))
            };
            match mode {
                Mode::Wrapper => f(RelativeTo::try_from_str(&s)),
                Mode::Twin(p) => f(RelativeTo::try_from_str_with_provider(&s, p)),
            }
        }
        "now.plain_datetime_iso" | "now.plain_date_iso" | "now.plain_time_iso" => {
            let arg = if op.sel % 2 == 0 { None } else { Some(tz(&op.zone)) };
            match mode {
                Mode::Wrapper => match k {
                    "now.plain_datetime_iso" => out(Now::plain_datetime_iso(arg)),
                    "now.plain_date_iso" => out(Now::plain_date_iso(arg)),
                    _ => out(Now::plain_time_iso(arg)),
                },
                Mode::Twin(p) => {
                    // Specified order: resolve the zone first, then the clock.
                    let zone = match arg {
                        Some(z) => z,
                        None => match model_host_tz(&op.host) {
                            Ok(n) => TimeZone::IanaIdentifier(n),
                            Err(e) => return out::<()>(Err(e)),
                        },
                    };
                    let reading = op.clock.first().copied().unwrap_or(1_700_000_000_123_456_789);
                    let en = match model_system_nanos(reading).and_then(EpochNanoseconds::try_from)
                    {
                        Ok(x) => x,
                        Err(e) => return out::<()>(Err(e)),
                    };
                    match k {
                        "now.plain_datetime_iso" => out(
                            Now::plain_datetime_iso_with_provider_and_system_info(en, zone, p),
                        ),
                        "now.plain_date_iso" => {
                            out(Now::plain_date_iso_with_provider_and_system_info(en, zone, p))
                        }
                        _ => out(Now::plain_time_iso_with_provider_and_system_info(en, zone, p)),
                    }
                }
            }
        }
        "now.zoneddatetime_iso" => {
            let arg = if op.sel % 2 == 0 { None } else { Some(tz(&op.zone)) };
            match mode {
                Mode::Wrapper => out(Now::zoneddatetime_iso(arg)),
                Mode::Twin(_) => {
                    let zone = match arg {
                        Some(z) => z,
                        None => match model_host_tz(&op.host) {
                            Ok(n) => TimeZone::IanaIdentifier(n),
                            Err(e) => return out::<()>(Err(e)),
                        },
                    };
                    let reading = op.clock.first().copied().unwrap_or(1_700_000_000_123_456_789);
                    match model_system_nanos(reading).and_then(EpochNanoseconds::try_from) {
                        Ok(en) => out(Now::zoneddatetime_iso_with_system_info(en, zone)),
                        Err(e) => out::<()>(Err(e)),
                    }
                }
            }
        }
        "now.instant" => match mode {
            Mode::Wrapper => out(Now::instant()),
            Mode::Twin(_) => {
                let reading = op.clock.first().copied().unwrap_or(1_700_000_000_123_456_789);
                out(model_system_nanos(reading)
                    .and_then(EpochNanoseconds::try_from)
                    .map(Instant::from))
            }
        },
        "now.time_zone_identifier" => match mode {
            Mode::Wrapper => out(Now::time_zone_identifier()),
            Mode::Twin(_) => out(model_host_tz(&op.host)),
        },
        "raw.check_identifier" | "raw.offset" | "raw.local" => {
            let q = |p: &dyn RawQuery| -> Outcome {
                match k {
                    "raw.check_identifier" => Outcome::Ok(format!("{}", p.check(&op.zone))),
                    "raw.offset" => p.offset(&op.zone, op.ns),
                    _ => p.local(&op.zone, op.ns),
                }
            };
            match mode {
                Mode::Wrapper => {
                    // the shared provider, under its lock, with scheduling
                    // points inside the critical section
                    match temporal_rs::verif_hooks::with_shared_provider(|p| {
                        sim().yield_point("in-cs", 0);
                        let o = q(p);
                        sim().yield_point("in-cs", 1);
                        o
                    }) {
                        Ok(o) => o,
                        Err(e) => out::<()>(Err(e)),
                    }
                }
                Mode::Twin(p) => q(&Q(p)),
            }
        }
        "core.pd.to_zoned_date_time" | "core.zdt.from_partial" => {
            fn run<P: TimeZoneProvider>(op: &Op, p: &P) -> Outcome {
                let (y, mo, d, h, mi, s, ms, us, n) = civil(op.ns);
                if op.kind == "core.pd.to_zoned_date_time" {
                    let pd = match PlainDate::try_new(y, mo, d, cal(op.cal)) {
                        Ok(x) => x,
                        Err(e) => return out::<()>(Err(e)),
                    };
                    let t = if op.sel % 3 == 0 { None } else { plain_time(op.sel / 3).ok() };
                    out(pd.to_zoned_date_time_with_provider(tz(&op.zone), t, p))
                } else {
                    let mut date = temporal_rs::partial::PartialDate::default();
                    date.year = Some(y);
                    date.month = Some(mo);
                    date.day = Some(d);
                    let mut time = temporal_rs::partial::PartialTime::default();
                    if op.sel % 5 != 0 {
                        time.hour = Some(h);
                        time.minute = Some(mi);
                        time.second = Some(s);
                        time.millisecond = Some(ms);
                        time.microsecond = Some(us);
                        time.nanosecond = Some(n);
                    }
                    let offset = match (op.sel / 5) % 4 {
                        0 => None,
                        1 => UtcOffset::from_str("+00:00").ok(),
                        2 => UtcOffset::from_str("-05:00").ok(),
                        _ => UtcOffset::from_str("+01:00").ok(),
                    };
                    let partial = temporal_rs::partial::PartialZonedDateTime::new()
                        .with_date(date)
                        .with_time(time)
                        .with_offset(offset)
                        .with_timezone(if op.sel % 11 == 10 { None } else { Some(tz(&op.zone)) });
                    let ov = match (op.sel / 20) % 3 {
                        0 => None,
                        1 => Some(ArithmeticOverflow::Constrain),
                        _ => Some(ArithmeticOverflow::Reject),
                    };
                    let dis = if (op.sel / 60) % 5 == 4 { None } else { Some(DISAMB[((op.sel / 60) % 4) as usize]) };
                    let od = if (op.sel / 300) % 5 == 4 { None } else { Some(OFFDIS[((op.sel / 300) % 4) as usize]) };
                    out(ZonedDateTime::from_partial_with_provider(partial, ov, dis, od, p))
                }
            }
            match mode {
                Mode::Wrapper => {
                    match temporal_rs::verif_hooks::with_shared_provider(|p| {
                        sim().yield_point("in-cs", 3);
                        run(op, p)
                    }) {
                        Ok(o) => o,
                        Err(e) => out::<()>(Err(e)),
                    }
                }
                Mode::Twin(p) => run(op, p),
            }
        }
        INJECT_PANIC => match mode {
            Mode::Wrapper => {
                let r = temporal_rs::verif_hooks::with_shared_provider(|_p| -> u8 {
                    sim().yield_point("in-cs", 2);
                    panic!("injected panic while holding the provider")
                });
                out(r)
            }
            Mode::Twin(_) => Outcome::Panic("injected".into()),
        },
        _ => Outcome::Err("Harness".into(), format!("unknown op {k}")),
    }
}

trait RawQuery {
    fn check(&self, id: &str) -> bool;
    fn offset(&self, id: &str, ns: i128) -> Outcome;
    fn local(&self, id: &str, ns: i128) -> Outcome;
}
struct Q<'a, P: TimeZoneProvider>(&'a P);
impl<P: TimeZoneProvider> RawQuery for Q<'_, P> {
    fn check(&self, id: &str) -> bool {
        self.0.check_identifier(id)
    }
    fn offset(&self, id: &str, ns: i128) -> Outcome {
        out(self.0.get_named_tz_offset_nanoseconds(id, ns))
    }
    fn local(&self, id: &str, ns: i128) -> Outcome {
        let (y, mo, d, h, mi, s, ms, us, n) = civil(ns);
        let mut date = temporal_rs::iso::IsoDate::default();
        date.year = y;
        date.month = mo;
        date.day = d;
        let iso = temporal_rs::iso::IsoTime::new(h, mi, s, ms, us, n, ArithmeticOverflow::Reject)
            .and_then(|t| temporal_rs::iso::IsoDateTime::new(date, t));
        match iso {
            Ok(iso) => out(self.0.get_named_tz_epoch_nanoseconds(id, iso)),
            Err(e) => out::<()>(Err(e)),
        }
    }
}
impl RawQuery for FsTzdbProvider {
    fn check(&self, id: &str) -> bool {
        Q(self).check(id)
    }
    fn offset(&self, id: &str, ns: i128) -> Outcome {
        Q(self).offset(id, ns)
    }
    fn local(&self, id: &str, ns: i128) -> Outcome {
        Q(self).local(id, ns)
    }
}
