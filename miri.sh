#!/usr/bin/env bash
# Second engine for C20 (thorough tier): the free-threaded mode of tzsim
# (`tzsim free --seed W`: real threads, no baton, same solo-execution oracle)
# executed by Miri with many scheduler seeds. Miri's scheduler is seeded and
# pre-empts at arbitrary points; it reports data races, undefined behaviour
# and deadlocks, which the baton (one thread at a time) can never exhibit.
#   ./miri.sh <verif-seed> <out.json>        run the batch
#   ./miri.sh replay <workload-seed> <miri-seed>
set -u
HERE="$(cd "$(dirname "$0")" && pwd)"
SIM="$HERE/sim"
export CARGO_NET_OFFLINE=true
export CARGO_TARGET_DIR="$SIM/target/miri"
NSEEDS="${VERIF_MIRI_SEEDS:-16}"
NWORK="${VERIF_MIRI_WORKLOADS:-2}"
if [ "${1:-}" = replay ]; then
  cd "$SIM" && MIRIFLAGS="-Zmiri-disable-isolation -Zmiri-preemption-rate=0.1 -Zmiri-seed=$3" \
    cargo +nightly miri run --offline -- free --seed "$2" --verbose
  exit $?
fi
seed="${1:-1}"; out="${2:-$SIM/target/tmp-miri.json}"
mkdir -p "$SIM/target"
t0=$(date +%s)
ok=0; bad=0; runs=0; detail=""
for ((w=0; w<NWORK; w++)); do
  ws=$(( seed * 1000 + w ))
  log="$SIM/target/miri-$ws.log"
  ( cd "$SIM" && MIRIFLAGS="-Zmiri-disable-isolation -Zmiri-many-seeds=0..$NSEEDS -Zmiri-preemption-rate=0.1" \
      timeout 3000 cargo +nightly miri run --offline -- free --seed "$ws" ) > "$log" 2>&1
  rc=$?
  n_ok=$(grep -c "^FREE-THREADED-OK" "$log")
  ok=$(( ok + n_ok )); runs=$(( runs + NSEEDS ))
  if [ $rc -ne 0 ] || grep -q -E "Undefined Behavior|Data race|deadlock|FREE-THREADED-MISMATCH" "$log"; then
    if ! grep -q -E "Undefined Behavior|Data race|deadlock|FREE-THREADED-MISMATCH|unsupported operation" "$log"; then
      echo "HARNESS-ERROR: cargo miri failed (exit $rc); see $log"; tail -20 "$log"; exit 2
    fi
    bad=$(( bad + 1 ))
    what=$(grep -m1 -E "Undefined Behavior|Data race|deadlock|FREE-THREADED-MISMATCH|unsupported operation" "$log" | cut -c1-200 | tr -d '"')
    mseed=$(grep -m1 -o "FAILING SEED: [0-9]*" "$log" | awk '{print $3}'); mseed=${mseed:-0}
    mkdir -p "$HERE/replays"
    rp="$HERE/replays/C20-miri-$ws-$mseed.json"
    printf '{"property":"C20","engine":"miri","workload_seed":%s,"miri_seed":%s,"what":"%s","replay_cmd":"./miri.sh replay %s %s"}\n' "$ws" "$mseed" "$what" "$ws" "$mseed" > "$rp"
    echo "  miri: $what"
    echo "VIOLATION property=C20 replay=$rp"
    detail="$what"
  fi
done
t1=$(date +%s)
cat > "$out" <<JSON
{"engine":"miri free-threaded (tzsim free)","workload_seeds":$NWORK,"miri_scheduler_seeds_per_workload":$NSEEDS,
 "executions":$runs,"executions_ok":$ok,"failures":$bad,"wall_s":$(( t1 - t0 )),
 "flags":"-Zmiri-disable-isolation -Zmiri-many-seeds=0..$NSEEDS -Zmiri-preemption-rate=0.1",
 "detects":"data races, undefined behaviour, deadlocks, and results that differ from the solo execution under real pre-emption",
 "workload":"2-3 threads x 2-3 convenience-API calls over two of {America/New_York, Europe/Berlin, Pacific/Apia, Asia/Kolkata}, incl. injected panics while holding the provider and F1/F2/F5 disk faults"}
JSON
[ $bad -eq 0 ] && exit 0 || exit 1
