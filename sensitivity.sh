#!/usr/bin/env bash
# Applies each property-breaking patch (own catalogue under mutants/, and the
# independently written ones under seeded/<id>/patch.diff) to /repo's working
# tree, runs the four quick checks, reverts, and reports who catches what.
# /repo must be clean; it is restored with `git checkout -- .` after every patch.
set -u
HERE="$(cd "$(dirname "$0")" && pwd)"
only="${1:-}"
# the tree the patches are applied to: /repo, or a private copy of it
# (TZSIM_REPO, which ./check honours too) when /repo itself is in use
REPO="${TZSIM_REPO:-/repo}"
if [ -n "$(git -C "$REPO" status --porcelain --untracked-files=no)" ]; then
  echo "refusing: $REPO has uncommitted changes"; exit 2
fi
trap 'git -C "$REPO" checkout -- . 2>/dev/null' EXIT
out="$HERE/evidence/selftest-sensitivity.json"
# Every finished patch is merged into the evidence file at once (rows are
# replaced by patch name; each row names the /verif commit it was produced
# at), so a run that is stopped early loses nothing.
vc=$(git -C "$HERE" rev-parse --short HEAD 2>/dev/null || echo "?")
merge_row() {
  printf '%s\n' "$1" | python3 -c '
import json, sys
row = json.load(sys.stdin); out, vc = sys.argv[1], sys.argv[2]
row["verif_commit"] = vc
try: rows = json.load(open(out))["results"]
except Exception: rows = []
rows = [r for r in rows if r["patch"] != row["patch"]] + [row]
rows.sort(key=lambda r: (not r["patch"].startswith("mutants/"), r["patch"]))
json.dump({"selftest": "sensitivity", "results": rows}, open(out, "w"), indent=0)
' "$out" "$vc"
}
shopt -s nullglob
patches=("$HERE"/mutants/*.diff "$HERE"/seeded/*/patch.diff)
# SENS_ONLY_SEEDED=1: skip the own catalogue; SENS_ORDER=reverse: last patch
# first (two streams on two copies of the tree can then meet in the middle)
[ -n "${SENS_ONLY_SEEDED:-}" ] && patches=("$HERE"/seeded/*/patch.diff)
if [ "${SENS_ORDER:-}" = reverse ]; then
  rev=(); for ((k=${#patches[@]}-1; k>=0; k--)); do rev+=("${patches[k]}"); done; patches=("${rev[@]}")
fi
for patch in "${patches[@]}"; do
  case "$patch" in
    */seeded/*) name="seeded/$(basename "$(dirname "$patch")")"; meta="$(dirname "$patch")/meta.json"
                prop=$(python3 -c "import json,sys; print(json.load(open(sys.argv[1]))['property'])" "$meta" 2>/dev/null || echo "?") ;;
    *) name="mutants/$(basename "$patch" .diff)"; prop=$(grep -h '^property=' "${patch%.diff}.meta" | cut -d= -f2) ;;
  esac
  [ -n "$only" ] && [[ "$name" != *"$only"* ]] && continue
  if ! git -C "$REPO" apply "$patch" 2>/dev/null && ! { git -C "$REPO" apply -3 "$patch" 2>/dev/null && git -C "$REPO" reset -q; }; then
    echo "$name: patch does not apply"; merge_row "{\"patch\":\"$name\",\"property\":\"$prop\",\"applies\":false}"; continue
  fi
  res=""
  caught=""
  for p in C20 C15 C19 C03; do
    log=$(VERIF_RUNS="${SENS_RUNS:-}" timeout 900 "$HERE/check" $p quick 2>&1); rc=$?
    [ -z "${SENS_RUNS:-}" ] || true
    cls=$(echo "$log" | grep -m1 "violation class:" | sed 's/.*violation class: //' | tr -d '"' | cut -c1-140)
    res="$res\"$p\":{\"exit\":$rc,\"class\":\"$cls\"},"
    [ $rc -eq 1 ] && caught="$caught $p"
    [ $rc -ge 2 ] && caught="$caught $p:HARNESS-ERROR($rc)"
  done
  git -C "$REPO" checkout -- .
  rm -f "$HERE"/replays/*.json
  echo "$name (breaks $prop): caught by:${caught:- NONE}"
  merge_row "{\"patch\":\"$name\",\"property\":\"$prop\",\"applies\":true,\"caught_by\":\"${caught# }\",\"checks\":{${res%,}}}"
done
"$HERE/check" build >/dev/null 2>&1
exit 0
