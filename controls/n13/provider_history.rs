//! History independence of the file-system time zone provider, including
//! histories with failing lookups.
//!
//! A long-lived `FsTzdbProvider` is driven through a pseudo-random sequence of
//! calls - successful ones and failing ones (unknown, wrongly-cased, directory
//! names, over-long identifiers, identifiers with spaces / non-ASCII / NUL
//! characters). After every call the outcome (value, or error *kind*, or
//! panic) is compared with the outcome of the very same call on a brand-new
//! provider. The process-wide provider behind the `compiled_data` convenience
//! API is long-lived too, so its wrappers are compared with their
//! `*_with_provider` twins on a brand-new provider in the same way.
//!
//! Run with `cargo test --features compiled_data --test provider_history`.
#![cfg(all(feature = "compiled_data", target_family = "unix"))]

use std::cell::Cell;
use std::collections::hash_map::DefaultHasher;
use std::hash::{Hash, Hasher};
use std::panic::{catch_unwind, AssertUnwindSafe};
use std::sync::Once;

use temporal_rs::error::ErrorKind;
use temporal_rs::iso::{IsoDate, IsoDateTime, IsoTime};
use temporal_rs::options::{
    ArithmeticOverflow, DisplayCalendar, DisplayOffset, DisplayTimeZone, ToStringRoundingOptions,
};
use temporal_rs::provider::TimeZoneProvider;
use temporal_rs::tzdb::FsTzdbProvider;
use temporal_rs::{Calendar, TemporalResult, TimeZone, ZonedDateTime};

/// What a call did, as far as the properties are concerned.
#[derive(Debug, Clone, PartialEq)]
enum Outcome {
    Value(String),
    Error(ErrorKind),
    Panic,
}

thread_local! {
    /// Set while a call is being observed: a panic in there is an outcome to
    /// be compared, not something to report on stderr.
    static OBSERVING: Cell<bool> = const { Cell::new(false) };
}

fn quiet_observed_panics() {
    static HOOK: Once = Once::new();
    HOOK.call_once(|| {
        let default_hook = std::panic::take_hook();
        std::panic::set_hook(Box::new(move |info| {
            if !OBSERVING.with(Cell::get) {
                default_hook(info);
            }
        }));
    });
}

fn observe<T>(call: impl FnOnce() -> TemporalResult<T>, show: impl FnOnce(T) -> String) -> Outcome {
    quiet_observed_panics();
    OBSERVING.with(|flag| flag.set(true));
    let result = catch_unwind(AssertUnwindSafe(call));
    OBSERVING.with(|flag| flag.set(false));
    match result {
        Ok(Ok(value)) => Outcome::Value(show(value)),
        Ok(Err(error)) => Outcome::Error(error.kind()),
        Err(_) => Outcome::Panic,
    }
}

fn debug<T: core::fmt::Debug>(value: T) -> String {
    format!("{value:?}")
}

/// Parsed zone files are big; compare a digest of their `Debug` rendering.
fn digest<T: core::fmt::Debug>(value: T) -> String {
    let mut hasher = DefaultHasher::new();
    format!("{value:?}").hash(&mut hasher);
    format!("{:016x}", hasher.finish())
}

/// splitmix64
struct Rng(u64);

impl Rng {
    fn next(&mut self) -> u64 {
        self.0 = self.0.wrapping_add(0x9E37_79B9_7F4A_7C15);
        let mut z = self.0;
        z = (z ^ (z >> 30)).wrapping_mul(0xBF58_476D_1CE4_E5B9);
        z = (z ^ (z >> 27)).wrapping_mul(0x94D0_49BB_1331_11EB);
        z ^ (z >> 31)
    }

    fn below(&mut self, n: u64) -> u64 {
        self.next() % n
    }

    fn between(&mut self, lo: i128, hi: i128) -> i128 {
        let span = (hi - lo + 1) as u128;
        let r = (u128::from(self.next()) << 64 | u128::from(self.next())) % span;
        lo + r as i128
    }

    fn pick<'a, T>(&mut self, items: &'a [T]) -> &'a T {
        &items[self.below(items.len() as u64) as usize]
    }
}

const GOOD_ZONES: &[&str] = &[
    "UTC",
    "Etc/GMT+5",
    "America/New_York",
    "America/St_Johns",
    "America/Sao_Paulo",
    "Europe/Berlin",
    "Europe/Dublin",
    "Europe/London",
    "Africa/Casablanca",
    "Africa/Monrovia",
    "Asia/Kolkata",
    "Asia/Kathmandu",
    "Asia/Tehran",
    "Australia/Lord_Howe",
    "Australia/Sydney",
    "Pacific/Apia",
    "Pacific/Kiritimati",
    "Antarctica/Troll",
];

fn bad_zones() -> Vec<String> {
    let mut ids: Vec<String> = [
        // unknown
        "Not/AZone",
        "Mars/Olympus_Mons",
        "America/New_York/Nowhere",
        "America/New_York.bak",
        // wrongly-cased (the zoneinfo directory is case-sensitive)
        "america/new_york",
        "AMERICA/NEW_YORK",
        "europe/Berlin",
        "utc",
        // directory names
        "America",
        "America/",
        "America/Argentina",
        "Etc",
        "",
        ".",
        // spaces
        " ",
        " America/New_York",
        "America/New_York ",
        "America/New York",
        "Europe/ Berlin",
        "\tUTC\n",
        // non-ASCII
        "Europe/Z\u{fc}rich",
        "\u{6771}\u{4eac}/\u{65e5}\u{672c}",
        "Europe/Berlin\u{200b}",
        "Am\u{e9}rica/New_York",
        "\u{1f30d}/\u{1f553}",
        // odd
        "Europe/\0Berlin",
        "Europe/Berlin\0",
        "\"quoted\"/\\back\\slash",
        "{e} {identifier:?} %s %n",
    ]
    .iter()
    .map(|s| String::from(*s))
    .collect();
    // over-long identifiers: one component beyond NAME_MAX, one path beyond
    // PATH_MAX, one of exactly 300 characters with separators
    ids.push("x".repeat(300));
    ids.push("Zone/".repeat(60));
    ids.push("A/".repeat(4000));
    ids.push("\u{e4}".repeat(300));
    ids
}

const NS_PER_S: i128 = 1_000_000_000;
const NS_MAX: i128 = 8_640_000_000_000_000_000_000;

fn random_instant(rng: &mut Rng) -> i128 {
    match rng.below(10) {
        // anywhere an Instant may be (and a little beyond)
        0 => rng.between(-NS_MAX - NS_PER_S, NS_MAX + NS_PER_S),
        1 => *rng.pick(&[-NS_MAX, NS_MAX, 0, -1, 1, NS_MAX - 1, -NS_MAX + 1]),
        // 1800 .. 2500
        2 | 3 => rng.between(-5_364_662_400 * NS_PER_S, 16_725_225_600 * NS_PER_S),
        // 1900 .. 2100, where the transitions are
        _ => rng.between(-2_208_988_800 * NS_PER_S, 4_102_444_800 * NS_PER_S),
    }
}

fn random_local(rng: &mut Rng) -> Option<IsoDateTime> {
    let mut date = IsoDate::default();
    date.year = match rng.below(10) {
        0 => rng.between(-271_821, 275_760) as i32,
        1 => *rng.pick(&[-271_821, -271_820, 275_760, 275_759, 0, 1]),
        _ => rng.between(1880, 2110) as i32,
    };
    date.month = rng.between(1, 12) as u8;
    date.day = rng.between(1, 28) as u8;
    // hours 1..=3 on a random day are where gaps and overlaps live
    let hour = if rng.below(2) == 0 {
        rng.between(0, 3) as u8
    } else {
        rng.between(0, 23) as u8
    };
    let time = IsoTime::new(
        hour,
        rng.between(0, 59) as u8,
        rng.between(0, 59) as u8,
        rng.between(0, 999) as u16,
        0,
        0,
        ArithmeticOverflow::Reject,
    )
    .ok()?;
    IsoDateTime::new(date, time).ok()
}

/// One call against a provider.
#[derive(Debug, Clone)]
enum Op {
    Load(String),
    Check(String),
    Offset(String, i128),
    Local(String, IsoDateTime),
    Render(String, i128),
    HoursInDay(String, i128),
    StartOfDay(String, i128),
}

fn zoned(id: &str, ns: i128) -> TemporalResult<ZonedDateTime> {
    ZonedDateTime::try_new(
        ns,
        Calendar::default(),
        TimeZone::IanaIdentifier(String::from(id)),
    )
}

fn render(zdt: &ZonedDateTime, provider: &FsTzdbProvider) -> TemporalResult<String> {
    zdt.to_ixdtf_string_with_provider(
        DisplayOffset::Auto,
        DisplayTimeZone::Auto,
        DisplayCalendar::Auto,
        ToStringRoundingOptions::default(),
        provider,
    )
}

impl Op {
    fn random(rng: &mut Rng, bad: &[String]) -> Op {
        // roughly one call in three is made with an identifier that cannot be loaded
        let id = if rng.below(3) == 0 {
            rng.pick(bad).clone()
        } else {
            String::from(*rng.pick(GOOD_ZONES))
        };
        loop {
            return match rng.below(8) {
                0 => Op::Load(id),
                1 => Op::Check(id),
                2 | 3 => Op::Offset(id, random_instant(rng)),
                4 => match random_local(rng) {
                    Some(local) => Op::Local(id, local),
                    None => continue,
                },
                5 => Op::Render(id, random_instant(rng)),
                6 => Op::HoursInDay(id, random_instant(rng)),
                _ => Op::StartOfDay(id, random_instant(rng)),
            };
        }
    }

    fn identifier(&self) -> &str {
        match self {
            Op::Load(id)
            | Op::Check(id)
            | Op::Offset(id, _)
            | Op::Local(id, _)
            | Op::Render(id, _)
            | Op::HoursInDay(id, _)
            | Op::StartOfDay(id, _) => id,
        }
    }

    fn run(&self, provider: &FsTzdbProvider) -> Outcome {
        match self {
            Op::Load(id) => observe(|| provider.get(id), digest),
            Op::Check(id) => observe(|| Ok(provider.check_identifier(id)), debug),
            Op::Offset(id, ns) => {
                observe(|| provider.get_named_tz_offset_nanoseconds(id, *ns), debug)
            }
            Op::Local(id, local) => observe(
                || provider.get_named_tz_epoch_nanoseconds(id, *local),
                debug,
            ),
            Op::Render(id, ns) => observe(|| render(&zoned(id, *ns)?, provider), debug),
            Op::HoursInDay(id, ns) => observe(
                || zoned(id, *ns)?.hours_in_day_with_provider(provider),
                debug,
            ),
            Op::StartOfDay(id, ns) => observe(
                || {
                    render(
                        &zoned(id, *ns)?.start_of_day_with_provider(provider)?,
                        provider,
                    )
                },
                debug,
            ),
        }
    }

    /// The same call through the convenience API, i.e. against the
    /// process-wide (long-lived, shared by all tests of this binary) provider.
    fn run_shared(&self) -> Option<Outcome> {
        Some(match self {
            Op::Render(id, ns) => observe(
                || {
                    zoned(id, *ns)?.to_ixdtf_string(
                        DisplayOffset::Auto,
                        DisplayTimeZone::Auto,
                        DisplayCalendar::Auto,
                        ToStringRoundingOptions::default(),
                    )
                },
                debug,
            ),
            Op::HoursInDay(id, ns) => observe(|| zoned(id, *ns)?.hours_in_day(), debug),
            Op::StartOfDay(id, ns) => observe(
                || {
                    zoned(id, *ns)?.start_of_day()?.to_ixdtf_string(
                        DisplayOffset::Auto,
                        DisplayTimeZone::Auto,
                        DisplayCalendar::Auto,
                        ToStringRoundingOptions::default(),
                    )
                },
                debug,
            ),
            _ => return None,
        })
    }
}

fn drive(seed: u64, steps: usize) -> (usize, usize, usize) {
    let bad = bad_zones();
    let mut rng = Rng(seed);
    let long_lived = FsTzdbProvider::default();
    let mut mismatches: Vec<String> = Vec::new();
    let (mut values, mut errors, mut panics) = (0, 0, 0);

    for step in 0..steps {
        let op = Op::random(&mut rng, &bad);
        let fails_to_load = bad.iter().any(|id| id == op.identifier());

        let seen = op.run(&long_lived);
        let fresh = op.run(&FsTzdbProvider::default());
        if seen != fresh {
            mismatches.push(format!(
                "seed {seed} step {step}: {op:?}: long-lived {seen:?}, brand-new {fresh:?}"
            ));
        }
        if let Some(shared) = op.run_shared() {
            if shared != fresh {
                mismatches.push(format!(
                    "seed {seed} step {step}: {op:?}: shared {shared:?}, brand-new {fresh:?}"
                ));
            }
        }

        match &seen {
            Outcome::Value(_) => values += 1,
            Outcome::Error(_) => errors += 1,
            Outcome::Panic => panics += 1,
        }

        // A lookup that cannot load its zone file is an error, never a panic,
        // and a generic one whenever the load is what the call got to. (The
        // identifier check does not load anything and is case-insensitive, so
        // there is nothing to expect of it beyond history independence.)
        if fails_to_load {
            match (&op, &seen) {
                (Op::Check(_), Outcome::Value(_)) => {}
                (Op::Load(_) | Op::Offset(..), Outcome::Error(ErrorKind::Generic)) => {}
                (Op::Load(_) | Op::Offset(..) | Op::Check(_), other) => mismatches.push(format!(
                    "seed {seed} step {step}: {op:?}: expected a generic error, got {other:?}"
                )),
                (_, Outcome::Error(ErrorKind::Generic | ErrorKind::Range)) => {}
                (_, other) => mismatches.push(format!(
                    "seed {seed} step {step}: {op:?}: expected an error, got {other:?}"
                )),
            }
        }
    }

    assert!(
        mismatches.is_empty(),
        "{} mismatch(es):\n{}",
        mismatches.len(),
        mismatches.join("\n")
    );
    (values, errors, panics)
}

#[test]
fn long_lived_provider_answers_like_a_brand_new_one() {
    let mut totals = (0, 0, 0);
    for seed in [1, 2, 3, 0xC0FFEE, 0xDEAD_BEEF_u64] {
        let (values, errors, panics) = drive(seed, 600);
        totals = (totals.0 + values, totals.1 + errors, totals.2 + panics);
    }
    println!(
        "history: {} values, {} errors, {} panics (each identical on a brand-new provider)",
        totals.0, totals.1, totals.2
    );
    // the histories did contain both kinds of calls
    assert!(totals.0 > 500 && totals.1 > 500, "{totals:?}");
}

/// Failing lookups interleaved with successful ones on one provider: the
/// message names the identifier, the kind stays generic, and what was loaded
/// before and after is unaffected.
#[test]
fn failing_lookups_leave_the_provider_as_it_was() {
    let provider = FsTzdbProvider::default();
    let reference = |id: &str, ns: i128| {
        FsTzdbProvider::default()
            .get_named_tz_offset_nanoseconds(id, ns)
            .map_err(|e| e.kind())
    };
    let instants = [0, 1_500_000_000 * NS_PER_S, -1_500_000_000 * NS_PER_S];

    for round in 0..3 {
        for bad in bad_zones() {
            let outcome = catch_unwind(AssertUnwindSafe(|| provider.get(&bad)));
            let error = outcome
                .expect("a failing load must not panic")
                .expect_err("not a time zone");
            assert_eq!(error.kind(), ErrorKind::Generic, "{bad:?}");
            assert!(
                error.message().ends_with(&format!(" (time zone {bad:?})")),
                "{error}"
            );

            let good = GOOD_ZONES[(round * 7 + bad.len()) % GOOD_ZONES.len()];
            for ns in instants {
                assert_eq!(
                    provider
                        .get_named_tz_offset_nanoseconds(good, ns)
                        .map_err(|e| e.kind()),
                    reference(good, ns),
                    "{good} at {ns} after {bad:?}"
                );
            }
        }
    }
}
