#!/usr/bin/env python3
"""Compare answer dumps written by tests/tzdb_no_crash.rs (TEMPORAL_TZDB_DUMP).

usage: compare_dumps.py OLD_DEBUG NEW_DEBUG OLD_RELEASE NEW_RELEASE

Exit status 0 iff
  * the patched tree never panics,
  * every query that does not panic on the old debug build (overflow checks and
    debug assertions on) has the same answer on old and new, in debug and in
    release,
  * debug and release of the patched tree agree.
Queries that crashed on the old debug build but "worked" in old release through
wrapping arithmetic are listed separately (their release answer may change).
"""
import sys
from collections import Counter


def load(path):
    answers = {}
    for line in open(path):
        key, value = line.rstrip("\n").split(" => ", 1)
        assert answers.setdefault(key, value) == value, f"unstable answer for {key}"
    return answers


old_d, new_d, old_r, new_r = (load(p) for p in sys.argv[1:5])
assert old_d.keys() == new_d.keys() == old_r.keys() == new_r.keys()

crash_d = {k for k, v in old_d.items() if v == "PANIC"}
crash_r = {k for k, v in old_r.items() if v == "PANIC"}
kinds = lambda keys: dict(Counter(k.split()[0] for k in keys))
print(f"queries: {len(old_d)}")
print(f"old debug   PANIC: {len(crash_d)} {kinds(crash_d)}")
print(f"old release PANIC: {len(crash_r)} {kinds(crash_r)}")

bad = 0
new_panics = [k for k in new_d if "PANIC" in (new_d[k], new_r[k])]
print(f"new PANIC (debug or release): {len(new_panics)}")
bad += len(new_panics)

for name, old, new in (("debug", old_d, new_d), ("release", old_r, new_r)):
    changed = [k for k in old if k not in crash_d and old[k] != new[k]]
    print(f"{name}: answers changed for queries that did not crash before: {len(changed)}")
    for k in changed[:20]:
        print("   ", k, "|", old[k], "->", new[k])
    bad += len(changed)

mismatch = [k for k in new_d if new_d[k] != new_r[k]]
print(f"new debug vs new release mismatches: {len(mismatch)}")
bad += len(mismatch)

wrapped = [k for k in crash_d if k not in crash_r and old_r[k] != new_r[k]]
offset_changed = [
    k for k in wrapped if old_r[k].split(",")[0] != new_r[k].split(",")[0]
]
print(
    "crashed in old debug, wrapped silently in old release, release answer now "
    f"differs: {len(wrapped)} {kinds(wrapped)}; of these the offset/instant "
    f"itself (not only transition=) differs: {len(offset_changed)}"
)
for k in offset_changed:
    print("   ", k, "|", old_r[k], "->", new_r[k])

outcome = Counter(new_d[k].split("(")[0] + ("(Range" if new_d[k].startswith("Err(Range") else "") for k in crash_d)
print(f"former debug crashes now answer: {dict(outcome)}")
sys.exit(1 if bad else 0)
