//! Crash regressions of the bundled (file system) time zone provider and of
//! `TimeZone::disambiguate_possible_epoch_nanos`.
//!
//! Run with `--features compiled_data`, in debug and in `--release`.
//!
//! * `former_crashes_*`: inputs that used to panic (usize underflow, 32-bit
//!   overflow, failed debug assertion / index out of bounds) now return
//!   `Ok` or `Err`.
//! * `dump_answers`: with `TEMPORAL_TZDB_DUMP=<path>` set, writes one line per
//!   query (zone x instant / local time / disambiguation) with the answer, or
//!   `PANIC` if the call panicked. Dumping the unpatched and the patched tree
//!   and diffing the two files shows that only `PANIC` lines changed.
#![cfg(all(feature = "tzdb", target_family = "unix"))]

use std::fmt::Write as _;
use std::panic::{catch_unwind, AssertUnwindSafe};

use temporal_rs::{
    iso::{IsoDate, IsoDateTime, IsoTime},
    options::{Disambiguation, OffsetDisambiguation},
    provider::TimeZoneProvider,
    tzdb::{FsTzdbProvider, Tzif},
    ZonedDateTime,
};

const ZONES: &[&str] = &[
    "America/New_York",
    "Europe/London",
    "Europe/Berlin",
    "Australia/Sydney",
    "Pacific/Apia",
    "Asia/Tokyo",
    "Asia/Kolkata",
    "Africa/Cairo",
    "America/Sao_Paulo",
    "Europe/Dublin",
    "Africa/Casablanca",
    "Antarctica/Troll",
    "Australia/Lord_Howe",
    "Asia/Kathmandu",
    "Pacific/Kiritimati",
    "America/St_Johns",
    "Asia/Tehran",
    "Pacific/Auckland",
    "America/Santiago",
    "UTC",
    "Africa/Windhoek",
    "Europe/Moscow",
];

const DISAMBIGUATIONS: [Disambiguation; 4] = [
    Disambiguation::Compatible,
    Disambiguation::Earlier,
    Disambiguation::Later,
    Disambiguation::Reject,
];

// ==== helpers ====

/// Days since the epoch -> (year, month, day), proleptic Gregorian.
fn civil_from_days(z: i64) -> (i64, u8, u8) {
    let z = z + 719_468;
    let era = z.div_euclid(146_097);
    let doe = z.rem_euclid(146_097);
    let yoe = (doe - doe / 1_460 + doe / 36_524 - doe / 146_096) / 365;
    let doy = doe - (365 * yoe + yoe / 4 - yoe / 100);
    let mp = (5 * doy + 2) / 153;
    let d = (doy - (153 * mp + 2) / 5 + 1) as u8;
    let m = if mp < 10 { mp + 3 } else { mp - 9 } as u8;
    let y = yoe + era * 400 + i64::from(m <= 2);
    (y, m, d)
}

/// (year, month, day) -> days since the epoch, proleptic Gregorian.
fn days_from_civil(y: i64, m: i64, d: i64) -> i64 {
    let y = if m <= 2 { y - 1 } else { y };
    let era = y.div_euclid(400);
    let yoe = y.rem_euclid(400);
    let doy = (153 * (if m > 2 { m - 3 } else { m + 9 }) + 2) / 5 + d - 1;
    let doe = yoe * 365 + yoe / 4 - yoe / 100 + doy;
    era * 146_097 + doe - 719_468
}

fn utc_seconds(y: i64, m: i64, d: i64, hour: i64, minute: i64) -> i64 {
    days_from_civil(y, m, d) * 86_400 + hour * 3_600 + minute * 60
}

struct Civil {
    year: i64,
    month: u8,
    day: u8,
    hour: u8,
    minute: u8,
    second: u8,
}

fn civil_from_seconds(seconds: i64) -> Civil {
    let (year, month, day) = civil_from_days(seconds.div_euclid(86_400));
    let in_day = seconds.rem_euclid(86_400);
    Civil {
        year,
        month,
        day,
        hour: (in_day / 3_600) as u8,
        minute: (in_day % 3_600 / 60) as u8,
        second: (in_day % 60) as u8,
    }
}

/// The local date-time whose "local epoch seconds" are `seconds`.
fn iso_from_local_seconds(seconds: i64) -> Option<IsoDateTime> {
    let c = civil_from_seconds(seconds);
    let mut date = IsoDate::default();
    date.year = i32::try_from(c.year).ok()?;
    date.month = c.month;
    date.day = c.day;
    let mut time = IsoTime::default();
    time.hour = c.hour;
    time.minute = c.minute;
    time.second = c.second;
    IsoDateTime::new(date, time).ok()
}

/// `YYYY-MM-DDTHH:MM:SS[zone]`, only for years 1..=9999.
fn zoned_string(seconds: i64, zone: &str) -> Option<String> {
    let c = civil_from_seconds(seconds);
    if !(1..=9999).contains(&c.year) {
        return None;
    }
    Some(format!(
        "{:04}-{:02}-{:02}T{:02}:{:02}:{:02}[{zone}]",
        c.year, c.month, c.day, c.hour, c.minute, c.second
    ))
}

fn transition_times(zone: &str) -> Vec<i64> {
    let tzif = Tzif::read_tzif(zone).expect("zone file must be readable");
    tzif.data_block2
        .expect("TZif v2+ data block")
        .transition_times
        .iter()
        .map(|s| s.0)
        .collect()
}

/// Runs `f`, `None` if it panicked.
fn guarded<T>(f: impl FnOnce() -> T) -> Option<T> {
    catch_unwind(AssertUnwindSafe(f)).ok()
}

fn offset_at(provider: &FsTzdbProvider, zone: &str, seconds: i64) -> String {
    match guarded(|| {
        provider.get_named_tz_offset_nanoseconds(zone, i128::from(seconds) * 1_000_000_000)
    }) {
        None => "PANIC".into(),
        Some(Ok(o)) => format!(
            "Ok(offset={}, transition={:?})",
            o.offset, o.transition_epoch
        ),
        Some(Err(e)) => format!("Err({:?}: {})", e.kind(), e.message()),
    }
}

fn candidates_at(provider: &FsTzdbProvider, zone: &str, local_seconds: i64) -> String {
    let Some(iso) = iso_from_local_seconds(local_seconds) else {
        return "SKIP".into();
    };
    match guarded(|| provider.get_named_tz_epoch_nanoseconds(zone, iso)) {
        None => "PANIC".into(),
        Some(Ok(v)) => format!("Ok({v:?})"),
        Some(Err(e)) => format!("Err({:?}: {})", e.kind(), e.message()),
    }
}

fn zoned_at(provider: &FsTzdbProvider, source: &str, disambiguation: Disambiguation) -> String {
    match guarded(|| {
        ZonedDateTime::from_str_with_provider(
            source,
            disambiguation,
            OffsetDisambiguation::Reject,
            provider,
        )
    }) {
        None => "PANIC".into(),
        Some(Ok(z)) => format!("Ok({:?})", z.epoch_nanoseconds()),
        Some(Err(e)) => format!("Err({:?}: {})", e.kind(), e.message()),
    }
}

/// About 200 instants per zone: around the first, middle and last
/// transitions of the table, a coarse sweep over 1850..=2100 and hourly
/// sweeps over the rule based transition days of 2040.
fn sample_seconds(zone: &str) -> Vec<i64> {
    let transitions = transition_times(zone);
    let mut out = Vec::new();

    let n = transitions.len();
    let mut picks = vec![0, 1, 2, n / 2, n.saturating_sub(2), n.saturating_sub(1)];
    picks.retain(|i| *i < n);
    picks.dedup();
    for i in picks {
        for delta in [-86_400, -3_600, -1, 0, 1, 3_600, 86_400] {
            out.push(transitions[i] + delta);
        }
    }

    for year in (1850..=2100).step_by(5) {
        out.push(utc_seconds(year, 1, 15, 12, 0));
        out.push(utc_seconds(year, 7, 15, 12, 0));
    }

    // Around 2^31 seconds.
    for delta in [-86_400, -1, 0, 1, 86_400] {
        out.push(i64::from(i32::MAX) + delta);
    }

    // Rule based transition days (northern and southern rules) in 2040.
    for (month, day) in [(3, 11), (3, 25), (4, 1), (10, 7), (10, 28), (11, 4)] {
        for hour in (0..24).step_by(3) {
            out.push(utc_seconds(2040, month, day, hour, 30));
        }
    }
    out
}

// ==== (1) former crashes ====

#[test]
fn former_crashes_instant_equal_to_first_transition() {
    let provider = FsTzdbProvider::default();
    for zone in ZONES {
        let transitions = transition_times(zone);
        let Some(first) = transitions.first().copied() else {
            continue;
        };
        let at = offset_at(&provider, zone, first);
        assert!(at.starts_with("Ok("), "{zone} @ {first}: {at}");
        // The offset of the first transition applies from that very second on.
        if transitions.get(1).is_some_and(|second| first + 1 < *second) {
            assert_eq!(at, offset_at(&provider, zone, first + 1), "{zone}");
        }
    }
}

#[test]
fn former_crashes_local_time_around_first_transitions() {
    let provider = FsTzdbProvider::default();
    for zone in ZONES {
        let transitions = transition_times(zone);
        for transition in transitions.iter().take(3) {
            for delta in [
                -86_400, -50_000, -3_600, -1, 0, 1, 3_600, 50_000, 86_400, 864_000,
            ] {
                let local = transition + delta;
                let answer = candidates_at(&provider, zone, local);
                assert_ne!(answer, "PANIC", "{zone} local {local}");
            }
        }
    }
}

#[test]
fn former_crashes_rule_based_offsets_from_2038_on() {
    let provider = FsTzdbProvider::default();
    for zone in ZONES {
        for year in [2038, 2039, 2040, 2100, 2500, 9999] {
            for (month, day) in [(1, 15), (3, 11), (7, 15), (10, 28), (12, 31)] {
                let seconds = utc_seconds(year, month, day, 12, 0);
                let answer = offset_at(&provider, zone, seconds);
                assert!(answer.starts_with("Ok("), "{zone} @ {seconds}: {answer}");
            }
        }
    }

    // 2040-07-15T12:00Z, New York is on EDT since 2040-03-11T07:00Z.
    let offset = provider
        .get_named_tz_offset_nanoseconds(
            "America/New_York",
            i128::from(utc_seconds(2040, 7, 15, 12, 0)) * 1_000_000_000,
        )
        .unwrap();
    assert_eq!(offset.offset, -4 * 3_600);
    assert_eq!(
        offset.transition_epoch,
        Some(utc_seconds(2040, 3, 11, 7, 0))
    );
}

#[test]
fn former_crashes_local_time_inside_a_long_gap() {
    // Pacific/Apia skipped 2011-12-30 completely.
    let provider = FsTzdbProvider::default();
    for hour in 0..24 {
        let source = format!("2011-12-30T{hour:02}:30:00[Pacific/Apia]");
        for disambiguation in DISAMBIGUATIONS {
            let answer = zoned_at(&provider, &source, disambiguation);
            assert!(
                answer.starts_with("Ok(") || answer.starts_with("Err(Range"),
                "{source} {disambiguation:?}: {answer}"
            );
        }
    }
    // The neighbouring days are not affected.
    for source in [
        "2011-12-29T12:00:00[Pacific/Apia]",
        "2011-12-31T12:00:00[Pacific/Apia]",
    ] {
        let answer = zoned_at(&provider, source, Disambiguation::Compatible);
        assert!(answer.starts_with("Ok("), "{source}: {answer}");
    }
}

// ==== (2) answers, for a diff between two trees ====

#[test]
fn dump_answers() {
    let Some(path) = std::env::var_os("TEMPORAL_TZDB_DUMP") else {
        return;
    };

    let provider = FsTzdbProvider::default();
    let mut out = String::new();
    for zone in ZONES {
        let samples = sample_seconds(zone);
        for (i, seconds) in samples.iter().copied().enumerate() {
            writeln!(
                out,
                "offset {zone} {seconds} => {}",
                offset_at(&provider, zone, seconds)
            )
            .unwrap();
            writeln!(
                out,
                "local {zone} {seconds} => {}",
                candidates_at(&provider, zone, seconds)
            )
            .unwrap();
            // Every third sample also goes through the disambiguation.
            if i % 3 != 0 {
                continue;
            }
            let Some(source) = zoned_string(seconds, zone) else {
                continue;
            };
            for disambiguation in DISAMBIGUATIONS {
                writeln!(
                    out,
                    "zoned {source} {disambiguation:?} => {}",
                    zoned_at(&provider, &source, disambiguation)
                )
                .unwrap();
            }
        }
    }
    // Local times around and inside of the day Pacific/Apia skipped.
    for hour in (0..72).step_by(2) {
        let seconds = utc_seconds(2011, 12, 29, hour, 30);
        let source = zoned_string(seconds, "Pacific/Apia").unwrap();
        for disambiguation in DISAMBIGUATIONS {
            writeln!(
                out,
                "zoned {source} {disambiguation:?} => {}",
                zoned_at(&provider, &source, disambiguation)
            )
            .unwrap();
        }
    }
    // A fresh provider answers the same as the warmed-up one.
    let fresh = FsTzdbProvider::default();
    for zone in ZONES.iter().rev() {
        let seconds = utc_seconds(2020, 7, 15, 12, 0);
        assert_eq!(
            offset_at(&fresh, zone, seconds),
            offset_at(&provider, zone, seconds)
        );
    }

    std::fs::write(path, out).unwrap();
}
