//! Stress test for the process-wide time zone provider (`compiled_data` API)
//! and for `FsTzdbProvider` shared by reference between threads.
//!
//! Run with `cargo test --features compiled_data --test shared_provider_stress`.
//!
//! Reference results: every job is first evaluated sequentially through the
//! `*_with_provider` twins on a private, fresh `FsTzdbProvider` (one per job,
//! so the reference never sees a warm memo). The same jobs are then run from
//! eight threads, in a different order per thread,
//!
//!  1. through the convenience API (process-wide provider), with calls that
//!     panic while the provider is in use (caught) and calls that fail with an
//!     error interleaved, and
//!  2. (in `sync_provider_stress.rs`, which needs `FsTzdbProvider: Sync`) through
//!     the twins on one `FsTzdbProvider` shared by reference, a fresh (cold) one
//!     per round, so that many cold-start races are exercised,
//!
//! and every result (values, error kinds and messages, panics) must be equal
//! to the reference, whatever the interleaving.
#![cfg(all(feature = "compiled_data", target_family = "unix"))]

#[macro_use]
mod stress_common;
use stress_common::*;
use temporal_rs::tzdb::FsTzdbProvider;

#[test]
fn convenience_api_from_many_threads_with_caught_panics() {
    quiet_expected_panics();
    let jobs = jobs();
    let expected = reference(&jobs);
    let private = FsTzdbProvider::default();
    let faults = (
        apia_panics(Via::Provider(&private)),
        unknown_zone_fails(Via::Provider(&FsTzdbProvider::default())),
    );
    // The reference is meaningful: mostly values, some errors, some panics.
    let lines: Vec<&String> = expected.iter().flatten().collect();
    let values = lines.iter().filter(|l| l.contains(": Ok(")).count();
    assert!(values * 10 > lines.len() * 8, "{values} of {}", lines.len());
    assert!(lines.iter().any(|l| l.contains(": Err(")));
    if cfg!(debug_assertions) {
        // The panics are failed debug assertions of the library; a release
        // build answers with errors (or values) instead, which is compared too.
        assert!(lines.iter().any(|l| l.contains(": PANIC")));
        assert_eq!(faults.0, "apia: PANIC", "the fault is meant to be a panic");
    }
    assert!(faults.1.starts_with("unknown: Err("), "{}", faults.1);

    // Round 0 starts cold (this is the only test in this process), the others warm.
    for round in 0..3 {
        hammer(
            "convenience API",
            &ConvenienceApi,
            &jobs,
            &expected,
            Some(&faults),
            round,
        );
    }

    // Sequentially, after all the panics and errors: still the same answers.
    for (job, expected) in jobs.iter().zip(expected.iter()) {
        check(
            "convenience API afterwards",
            0,
            *job,
            &run(Via::Shared, *job),
            expected,
        )
        .unwrap();
    }
    assert_eq!(apia_panics(Via::Shared), faults.0);
    assert_eq!(unknown_zone_fails(Via::Shared), faults.1);
}
