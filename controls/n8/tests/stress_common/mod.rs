//! Shared by `shared_provider_stress.rs` and `sync_provider_stress.rs`.
#![allow(dead_code)]

use std::panic::{catch_unwind, AssertUnwindSafe};
use std::str::FromStr;
use std::sync::{Barrier, Once};

use temporal_rs::{
    options::{
        ArithmeticOverflow, DifferenceSettings, Disambiguation, DisplayCalendar, DisplayOffset,
        DisplayTimeZone, OffsetDisambiguation, RelativeTo, ToStringRoundingOptions, Unit,
    },
    tzdb::FsTzdbProvider,
    Calendar, Duration, Instant, PlainDateTime, TimeZone, ZonedDateTime,
};

pub const THREADS: usize = 8;

/// Zones of every flavour: northern/southern DST, negative DST (Dublin),
/// half-hour DST (Lord_Howe), skipped day (Apia, Kiritimati), odd offsets,
/// no DST, fixed-offset files, and two identifiers without a file.
pub const ZONES: &[&str] = &[
    "America/New_York",
    "America/Chicago",
    "America/Denver",
    "America/Los_Angeles",
    "America/Anchorage",
    "America/Sao_Paulo",
    "America/St_Johns",
    "America/Havana",
    "America/Santiago",
    "America/Caracas",
    "America/Mexico_City",
    "America/Argentina/Buenos_Aires",
    "America/Nuuk",
    "Europe/London",
    "Europe/Dublin",
    "Europe/Berlin",
    "Europe/Paris",
    "Europe/Moscow",
    "Europe/Lisbon",
    "Europe/Istanbul",
    "Europe/Kyiv",
    "Africa/Cairo",
    "Africa/Casablanca",
    "Africa/Johannesburg",
    "Africa/Lagos",
    "Africa/Windhoek",
    "Africa/Monrovia",
    "Africa/Juba",
    "Asia/Tokyo",
    "Asia/Kolkata",
    "Asia/Kathmandu",
    "Asia/Tehran",
    "Asia/Dhaka",
    "Asia/Shanghai",
    "Asia/Seoul",
    "Asia/Pyongyang",
    "Asia/Gaza",
    "Asia/Jerusalem",
    "Asia/Manila",
    "Asia/Ho_Chi_Minh",
    "Australia/Sydney",
    "Australia/Lord_Howe",
    "Australia/Adelaide",
    "Australia/Perth",
    "Australia/Eucla",
    "Pacific/Auckland",
    "Pacific/Chatham",
    "Pacific/Apia",
    "Pacific/Kiritimati",
    "Pacific/Honolulu",
    "Pacific/Fiji",
    "Pacific/Tongatapu",
    "Pacific/Norfolk",
    "Antarctica/Troll",
    "Antarctica/Casey",
    "Atlantic/Azores",
    "Atlantic/Reykjavik",
    "Indian/Maldives",
    "UTC",
    "Etc/GMT+5",
    "EST5EDT",
    // Same file through another spelling of the key: a different memo entry.
    "europe/london",
    // Accepted by the identifier check, but (usually) no such file: an I/O
    // error out of the provider, which must leave no trace.
    "AMERICA/new_york",
];

/// Epoch nanoseconds: 1950, 1985 (northern summer), 2011-12-30 (the day Apia
/// skipped), 2021 (northern winter), 2021 (northern summer), 2045 (footer).
pub const INSTANTS: &[i128] = &[
    -631_152_000_000_000_000,
    489_024_000_000_000_000,
    1_325_246_400_000_000_000,
    1_610_000_000_000_000_000,
    1_625_140_800_123_456_789,
    2_366_841_600_000_000_000,
];

/// Local date-times for `PlainDateTime::to_zoned_date_time`: a US gap, a US
/// fold, an EU gap, a southern gap, plain days.
pub const LOCALS: &[(i32, u8, u8, u8, u8)] = &[
    (2021, 3, 14, 2, 30),
    (2021, 11, 7, 1, 30),
    (2021, 3, 28, 2, 30),
    (2021, 10, 3, 2, 15),
    (1995, 6, 15, 12, 0),
    (2050, 1, 1, 0, 0),
];

#[derive(Clone, Copy)]
pub enum Via<'a> {
    /// The convenience API (process-wide provider).
    Shared,
    /// The provider-taking twins.
    Provider(&'a FsTzdbProvider),
}

pub static QUIET: Once = Once::new();

/// Expected panics (library assertions on a few inputs) are caught and
/// compared; keep them off stderr, but keep everything else.
pub fn quiet_expected_panics() {
    QUIET.call_once(|| {
        let default_hook = std::panic::take_hook();
        std::panic::set_hook(Box::new(move |info| {
            let in_library = info
                .location()
                .is_some_and(|l| l.file().starts_with("src/"));
            if !in_library {
                default_hook(info);
            }
        }));
    });
}

/// Evaluates `f`, rendering value, error or panic as a string.
pub fn show<T: core::fmt::Debug>(name: &str, f: impl FnOnce() -> T) -> String {
    match catch_unwind(AssertUnwindSafe(f)) {
        Ok(value) => format!("{name}: {value:?}"),
        Err(_) => format!("{name}: PANIC"),
    }
}

macro_rules! both {
    ($via:expr, $name:expr, $shared:expr, |$p:ident| $with:expr) => {
        match $via {
            Via::Shared => show($name, || $shared),
            Via::Provider($p) => show($name, || $with),
        }
    };
}

/// All accessors for one (zone, instant) pair.
pub fn zoned_job(via: Via<'_>, zone: &str, nanos: i128) -> Vec<String> {
    let mut out = Vec::new();
    let tz = match TimeZone::try_from_str(zone) {
        Ok(tz) => tz,
        Err(e) => return vec![format!("time zone: {e:?}")],
    };
    let zdt = ZonedDateTime::try_new(nanos, Calendar::default(), tz.clone()).unwrap();
    let later = ZonedDateTime::try_new(
        nanos + 200 * 86_400_000_000_000 + 3_600_000_000_000,
        Calendar::default(),
        tz.clone(),
    )
    .unwrap();
    let one_month = Duration::from_str("P1M1DT1H").unwrap();

    out.push(both!(via, "year", zdt.year(), |p| zdt.year_with_provider(p)));
    out.push(both!(via, "month", zdt.month(), |p| zdt.month_with_provider(p)));
    out.push(both!(via, "day", zdt.day(), |p| zdt.day_with_provider(p)));
    out.push(both!(via, "hour", zdt.hour(), |p| zdt.hour_with_provider(p)));
    out.push(both!(via, "minute", zdt.minute(), |p| zdt.minute_with_provider(p)));
    out.push(both!(via, "day_of_week", zdt.day_of_week(), |p| zdt
        .day_of_week_with_provider(p)));
    out.push(both!(via, "offset", zdt.offset(), |p| zdt.offset_with_provider(p)));
    out.push(both!(
        via,
        "offset_nanoseconds",
        zdt.offset_nanoseconds(),
        |p| zdt.offset_nanoseconds_with_provider(p)
    ));
    out.push(both!(via, "hours_in_day", zdt.hours_in_day(), |p| zdt
        .hours_in_day_with_provider(p)));
    out.push(both!(via, "start_of_day", zdt.start_of_day(), |p| zdt
        .start_of_day_with_provider(p)));
    out.push(both!(
        via,
        "to_plain_datetime",
        zdt.to_plain_datetime(),
        |p| zdt.to_plain_datetime_with_provider(p)
    ));
    out.push(both!(
        via,
        "add",
        zdt.add(&one_month, Some(ArithmeticOverflow::Constrain)),
        |p| zdt.add_with_provider(&one_month, Some(ArithmeticOverflow::Constrain), p)
    ));
    out.push(both!(
        via,
        "until",
        zdt.until(&later, DifferenceSettings::default()),
        |p| zdt.until_with_provider(&later, DifferenceSettings::default(), p)
    ));
    out.push(both!(
        via,
        "to_ixdtf_string",
        zdt.to_ixdtf_string(
            DisplayOffset::Auto,
            DisplayTimeZone::Auto,
            DisplayCalendar::Auto,
            ToStringRoundingOptions::default()
        ),
        |p| zdt.to_ixdtf_string_with_provider(
            DisplayOffset::Auto,
            DisplayTimeZone::Auto,
            DisplayCalendar::Auto,
            ToStringRoundingOptions::default(),
            p
        )
    ));

    let instant = Instant::try_new(nanos).unwrap();
    out.push(both!(
        via,
        "instant.to_ixdtf_string",
        instant.to_ixdtf_string(Some(&tz), ToStringRoundingOptions::default()),
        |p| instant.to_ixdtf_string_with_provider(Some(&tz), ToStringRoundingOptions::default(), p)
    ));

    let total_of = Duration::from_str("P1M15DT7H").unwrap();
    out.push(both!(
        via,
        "duration.total",
        total_of.total(Unit::Hour, Some(RelativeTo::ZonedDateTime(zdt.clone()))),
        |p| total_of.total_with_provider(
            Unit::Hour,
            Some(RelativeTo::ZonedDateTime(zdt.clone())),
            p
        )
    ));
    out
}

/// Local-time resolution and parsing for one zone.
pub fn local_job(via: Via<'_>, zone: &str, local: (i32, u8, u8, u8, u8)) -> Vec<String> {
    let mut out = Vec::new();
    let tz = match TimeZone::try_from_str(zone) {
        Ok(tz) => tz,
        Err(e) => return vec![format!("time zone: {e:?}")],
    };
    let (y, mo, d, h, mi) = local;
    let pdt = PlainDateTime::try_new(y, mo, d, h, mi, 0, 0, 0, 0, Calendar::default()).unwrap();
    for (name, disambiguation) in [
        ("compatible", Disambiguation::Compatible),
        ("earlier", Disambiguation::Earlier),
        ("later", Disambiguation::Later),
        ("reject", Disambiguation::Reject),
    ] {
        out.push(both!(
            via,
            name,
            pdt.to_zoned_date_time(&tz, disambiguation),
            |p| pdt.to_zoned_date_time_with_provider(&tz, disambiguation, p)
        ));
    }
    let source = format!("{y:04}-{mo:02}-{d:02}T{h:02}:{mi:02}:00[{zone}]");
    out.push(both!(
        via,
        "from_str",
        ZonedDateTime::from_str(
            &source,
            Disambiguation::Compatible,
            OffsetDisambiguation::Reject
        ),
        |p| ZonedDateTime::from_str_with_provider(
            &source,
            Disambiguation::Compatible,
            OffsetDisambiguation::Reject,
            p
        )
    ));
    out
}

#[derive(Clone, Copy)]
pub enum Job {
    Zoned(usize, usize),
    Local(usize, usize),
}

pub fn jobs() -> Vec<Job> {
    let mut jobs = Vec::new();
    for z in 0..ZONES.len() {
        for i in 0..INSTANTS.len() {
            jobs.push(Job::Zoned(z, i));
        }
        for l in 0..LOCALS.len() {
            jobs.push(Job::Local(z, l));
        }
    }
    jobs
}

pub fn run(via: Via<'_>, job: Job) -> Vec<String> {
    match job {
        Job::Zoned(z, i) => zoned_job(via, ZONES[z], INSTANTS[i]),
        Job::Local(z, l) => local_job(via, ZONES[z], LOCALS[l]),
    }
}

/// Sequential reference: every job on its own fresh provider.
pub fn reference(jobs: &[Job]) -> Vec<Vec<String>> {
    jobs.iter()
        .map(|job| run(Via::Provider(&FsTzdbProvider::default()), *job))
        .collect()
}

/// A per-thread order of the jobs (a fixed permutation, different per thread
/// and per round), so that every zone is hit cold by some threads and warm by
/// others.
pub fn order(len: usize, thread: usize, round: usize) -> Vec<usize> {
    let mut state = 0x9e37_79b9_7f4a_7c15_u64 ^ ((thread as u64) << 32) ^ (round as u64 + 1);
    let mut next = move || {
        state ^= state << 13;
        state ^= state >> 7;
        state ^= state << 17;
        state
    };
    let mut order: Vec<usize> = (0..len).collect();
    for i in (1..len).rev() {
        let j = (next() % (i as u64 + 1)) as usize;
        order.swap(i, j);
    }
    order
}

/// The call that panics while it uses the provider: 2011-12-30 does not exist
/// in Apia.
pub fn apia_panics(via: Via<'_>) -> String {
    let tz = TimeZone::try_from_str("Pacific/Apia").unwrap();
    let pdt = PlainDateTime::try_new(2011, 12, 30, 12, 0, 0, 0, 0, 0, Calendar::default()).unwrap();
    both!(
        via,
        "apia",
        pdt.to_zoned_date_time(&tz, Disambiguation::Compatible),
        |p| pdt.to_zoned_date_time_with_provider(&tz, Disambiguation::Compatible, p)
    )
}

/// A call that fails with an error out of the provider.
pub fn unknown_zone_fails(via: Via<'_>) -> String {
    let source = "2021-06-01T00:00:00[AMERICA/new_york]";
    both!(
        via,
        "unknown",
        ZonedDateTime::from_str(
            source,
            Disambiguation::Compatible,
            OffsetDisambiguation::Reject
        ),
        |p| ZonedDateTime::from_str_with_provider(
            source,
            Disambiguation::Compatible,
            OffsetDisambiguation::Reject,
            p
        )
    )
}

pub fn check(
    what: &str,
    thread: usize,
    job: Job,
    got: &[String],
    expected: &[String],
) -> Result<(), String> {
    if got == expected {
        return Ok(());
    }
    let (z, kind) = match job {
        Job::Zoned(z, i) => (z, format!("instant {}", INSTANTS[i])),
        Job::Local(z, l) => (z, format!("local {:?}", LOCALS[l])),
    };
    Err(format!(
        "{what}: thread {thread}, zone {} {kind}:\n   got      {got:?}\n   expected {expected:?}",
        ZONES[z]
    ))
}

/// Where the worker threads of [`hammer`] get their provider from.
pub trait Target: Sync {
    fn via(&self) -> Via<'_>;
}

/// The convenience API (process-wide provider).
pub struct ConvenienceApi;
impl Target for ConvenienceApi {
    fn via(&self) -> Via<'_> {
        Via::Shared
    }
}

/// Runs all jobs from `THREADS` threads at once and compares with `expected`.
/// `faults` (expected results of [`apia_panics`] and [`unknown_zone_fails`])
/// interleaves panicking and failing calls.
pub fn hammer(
    what: &str,
    target: &impl Target,
    jobs: &[Job],
    expected: &[Vec<String>],
    faults: Option<&(String, String)>,
    round: usize,
) {
    let barrier = Barrier::new(THREADS);
    let failures: Vec<String> = std::thread::scope(|scope| {
        let handles: Vec<_> = (0..THREADS)
            .map(|t| {
                let barrier = &barrier;
                scope.spawn(move || -> Result<(), String> {
                    let via = target.via();
                    barrier.wait();
                    for (n, index) in order(jobs.len(), t, round).into_iter().enumerate() {
                        if let Some(faults) = faults {
                            // Threads panic / fail at different moments.
                            if (n + 3 * t) % 23 == 0 {
                                let got = apia_panics(via);
                                if got != faults.0 {
                                    return Err(format!(
                                        "{what}: thread {t}: {got} != {}",
                                        faults.0
                                    ));
                                }
                            }
                            if (n + 5 * t) % 31 == 0 {
                                let got = unknown_zone_fails(via);
                                if got != faults.1 {
                                    return Err(format!(
                                        "{what}: thread {t}: {got} != {}",
                                        faults.1
                                    ));
                                }
                            }
                        }
                        let got = run(via, jobs[index]);
                        check(what, t, jobs[index], &got, &expected[index])?;
                    }
                    Ok(())
                })
            })
            .collect();
        handles
            .into_iter()
            .filter_map(|handle| match handle.join() {
                Ok(Ok(())) => None,
                Ok(Err(message)) => Some(message),
                Err(_) => Some(format!("{what}: a worker thread panicked")),
            })
            .collect()
    });
    assert!(failures.is_empty(), "{}", failures.join("\n"));
}
