//! Stress test for one `FsTzdbProvider` shared by reference between threads
//! (needs `FsTzdbProvider: Sync`). See `shared_provider_stress.rs`.
//!
//! Run with `cargo test --features compiled_data --test sync_provider_stress`.
#![cfg(all(feature = "compiled_data", target_family = "unix"))]

#[macro_use]
mod stress_common;
use std::sync::Barrier;
use stress_common::*;
use temporal_rs::tzdb::FsTzdbProvider;

/// One provider used by all worker threads through a shared reference.
struct ByReference(FsTzdbProvider);
impl Target for ByReference {
    fn via(&self) -> Via<'_> {
        Via::Provider(&self.0)
    }
}

#[test]
fn one_provider_shared_by_reference_cold_races() {
    quiet_expected_panics();
    let jobs = jobs();
    let expected = reference(&jobs);
    let faults = (
        apia_panics(Via::Provider(&FsTzdbProvider::default())),
        unknown_zone_fails(Via::Provider(&FsTzdbProvider::default())),
    );
    // A fresh provider per round: every round starts with 8 threads missing.
    for round in 0..6 {
        let provider = ByReference(FsTzdbProvider::default());
        hammer(
            "shared FsTzdbProvider",
            &provider,
            &jobs,
            &expected,
            Some(&faults),
            round,
        );
        // The memo holds what a private provider would have parsed.
        for zone in ZONES {
            let shared = provider.0.get(zone).map(|t| format!("{t:?}"));
            let fresh = FsTzdbProvider::default()
                .get(zone)
                .map(|t| format!("{t:?}"));
            assert_eq!(shared, fresh, "{zone}");
        }
    }
}

/// All threads go for the same cold zone at the same moment, again and again
/// (fresh provider each time): the duplicate-load race on one shard.
#[test]
fn same_cold_zone_from_all_threads() {
    quiet_expected_panics();
    let zones = ["Europe/Berlin", "America/New_York", "Australia/Lord_Howe"];
    let nanos = INSTANTS[4];
    let expected: Vec<_> = zones
        .iter()
        .map(|zone| zoned_job(Via::Provider(&FsTzdbProvider::default()), zone, nanos))
        .collect();
    for round in 0..200 {
        let provider = FsTzdbProvider::default();
        let zone = zones[round % zones.len()];
        let expected = &expected[round % zones.len()];
        let barrier = Barrier::new(THREADS);
        std::thread::scope(|scope| {
            let handles: Vec<_> = (0..THREADS)
                .map(|_| {
                    scope.spawn(|| {
                        barrier.wait();
                        zoned_job(Via::Provider(&provider), zone, nanos)
                    })
                })
                .collect();
            for handle in handles {
                assert_eq!(&handle.join().unwrap(), expected, "{zone} round {round}");
            }
        });
    }
}
