//! Compares every `compiled_data` convenience wrapper of `zoneddatetime.rs`,
//! `duration.rs`, `instant.rs`, `plain_date_time.rs` and `date.rs` (plus
//! `RelativeTo::try_from_str` of `compiled/mod.rs`) with its `*_with_provider`
//! twin evaluated on a *fresh* `FsTzdbProvider`.
//!
//! Run with `cargo test --offline --features compiled_data --test compiled_wrappers_vs_twins`.
//!
//! Outcomes are compared through their `Debug` rendering, which covers the
//! value as well as the error kind and message (and works for types without
//! `PartialEq`, e.g. `Duration`). A panic on either side is caught and recorded
//! as its own outcome, so "both sides panic" is agreement, "one side panics" is not.
#![cfg(feature = "compiled_data")]

use std::cell::Cell;
use std::fmt::{Debug, Write as _};
use std::panic::{catch_unwind, AssertUnwindSafe};
use std::str::FromStr;
use std::sync::Once;

use temporal_rs::{
    options::{
        ArithmeticOverflow, DifferenceSettings, Disambiguation, DisplayCalendar, DisplayOffset,
        DisplayTimeZone, OffsetDisambiguation, RelativeTo, RoundingIncrement, RoundingMode,
        RoundingOptions, ToStringRoundingOptions, Unit,
    },
    parsers::Precision,
    partial::{PartialDate, PartialTime, PartialZonedDateTime},
    provider::TransitionDirection,
    tzdb::FsTzdbProvider,
    Calendar, Duration, Instant, PlainDate, PlainDateTime, PlainTime, TimeZone, UtcOffset,
    ZonedDateTime,
};

// ==== harness ====

#[derive(Default)]
struct Tally {
    compared: usize,
    ok: usize,
    err: usize,
    panicked: usize,
    mismatches: Vec<String>,
}

thread_local! {
    /// Set while this thread evaluates one side of a comparison.
    static IN_OUTCOME: Cell<bool> = const { Cell::new(false) };
}

/// Panics caught by `outcome` are expected (debug assertions of the core on odd
/// inputs) and are reported through the tally: keep them off stderr. Panics
/// anywhere else (failed test assertions) still go to the default hook.
fn quiet_expected_panics() {
    static INSTALL: Once = Once::new();
    INSTALL.call_once(|| {
        let default_hook = std::panic::take_hook();
        std::panic::set_hook(Box::new(move |info| {
            if !IN_OUTCOME.with(Cell::get) {
                default_hook(info);
            }
        }));
    });
}

fn outcome<T: Debug>(f: impl FnOnce() -> T) -> String {
    quiet_expected_panics();
    IN_OUTCOME.with(|flag| flag.set(true));
    let result = catch_unwind(AssertUnwindSafe(f));
    IN_OUTCOME.with(|flag| flag.set(false));
    match result {
        Ok(value) => format!("{value:?}"),
        Err(_) => "<panicked>".to_string(),
    }
}

impl Tally {
    fn same<T: Debug>(
        &mut self,
        label: &str,
        wrapper: impl FnOnce() -> T,
        twin: impl FnOnce(&FsTzdbProvider) -> T,
    ) {
        // The twin always runs on a provider nobody has used before.
        let fresh = FsTzdbProvider::default();
        let expected = outcome(|| twin(&fresh));
        let got = outcome(wrapper);
        self.compared += 1;
        if expected.starts_with("Ok(") {
            self.ok += 1;
        } else if expected.starts_with("Err(") {
            self.err += 1;
        } else if expected == "<panicked>" {
            self.panicked += 1;
        }
        if got != expected {
            self.mismatches.push(format!(
                "{label}:\n    wrapper: {got}\n    twin:    {expected}"
            ));
        }
    }

    fn finish(self, what: &str, want_ok: bool, want_err: bool) {
        eprintln!(
            "{what}: compared {} (ok {}, err {}, panicked {}), mismatches {}",
            self.compared,
            self.ok,
            self.err,
            self.panicked,
            self.mismatches.len()
        );
        assert!(
            self.mismatches.is_empty(),
            "{what}: {} wrapper/twin mismatches:\n{}",
            self.mismatches.len(),
            self.mismatches.join("\n")
        );
        // Guard against a vacuous run.
        assert!(self.compared > 0, "{what}: nothing compared");
        assert!(
            !want_ok || self.ok > 0,
            "{what}: no successful outcome exercised"
        );
        assert!(
            !want_err || self.err > 0,
            "{what}: no failing outcome exercised"
        );
    }
}

// ==== receivers and arguments ====

fn zones() -> Vec<(&'static str, TimeZone)> {
    vec![
        // DST zones (northern, southern with a 30 minute shift)
        (
            "America/New_York",
            TimeZone::try_from_str("America/New_York").unwrap(),
        ),
        (
            "Australia/Lord_Howe",
            TimeZone::try_from_str("Australia/Lord_Howe").unwrap(),
        ),
        // no DST
        ("UTC", TimeZone::default()),
        // fixed offsets
        ("+05:30", TimeZone::try_from_str("+05:30").unwrap()),
        ("-08:00", TimeZone::try_from_str("-08:00").unwrap()),
        // a zone no provider knows about
        (
            "Mars/Olympus_Mons",
            TimeZone::IanaIdentifier("Mars/Olympus_Mons".into()),
        ),
    ]
}

fn calendars() -> Vec<Calendar> {
    vec![
        Calendar::from_str("iso8601").unwrap(),
        Calendar::from_str("japanese").unwrap(),
        Calendar::from_str("hebrew").unwrap(),
    ]
}

/// Epoch nanoseconds; the sub-second digits are all distinct so that a
/// milli/micro/nano mix-up is visible.
fn epochs() -> Vec<i128> {
    vec![
        // 2023-11-30T01:49:12.123456789Z
        1_701_308_952_123_456_789,
        // 1 ns before / 987_654_321 ns after the 2024 spring-forward in New York (07:00Z)
        1_710_054_000_000_000_000 - 1,
        1_710_054_000_987_654_321,
        // inside the repeated hour of the 2024 fall-back in New York (06:00Z) + 00:12:34.001002003
        1_730_613_600_000_000_000 + 754_001_002_003,
        // before the epoch
        -560_174_321_098_766,
        0,
    ]
}

fn zdts() -> Vec<(String, ZonedDateTime)> {
    let mut out = Vec::new();
    for (zone_name, zone) in zones() {
        for calendar in calendars() {
            for ns in epochs() {
                let label = format!("zdt({ns}, {}, {zone_name})", calendar.identifier());
                out.push((
                    label,
                    ZonedDateTime::try_new(ns, calendar.clone(), zone.clone()).unwrap(),
                ));
            }
        }
    }
    out
}

fn durations() -> Vec<(&'static str, Duration)> {
    [
        "P1Y2M3W4DT5H6M7.008009010S",
        "-P1M15DT23H59M59.999999999S",
        "PT36H",
        "P40D",
        "PT0.000000001S",
        "P1Y",
    ]
    .into_iter()
    .map(|s| (s, Duration::from_str(s).unwrap()))
    .collect()
}

fn difference_settings() -> Vec<(&'static str, DifferenceSettings)> {
    let default = DifferenceSettings::default();

    let mut months_days_ceil = DifferenceSettings::default();
    months_days_ceil.largest_unit = Some(Unit::Month);
    months_days_ceil.smallest_unit = Some(Unit::Day);
    months_days_ceil.rounding_mode = Some(RoundingMode::Ceil);

    let mut hours_half_even_15min = DifferenceSettings::default();
    hours_half_even_15min.largest_unit = Some(Unit::Hour);
    hours_half_even_15min.smallest_unit = Some(Unit::Minute);
    hours_half_even_15min.rounding_mode = Some(RoundingMode::HalfEven);
    hours_half_even_15min.increment = Some(RoundingIncrement::try_new(15).unwrap());

    let mut years_floor = DifferenceSettings::default();
    years_floor.largest_unit = Some(Unit::Year);
    years_floor.smallest_unit = Some(Unit::Microsecond);
    years_floor.rounding_mode = Some(RoundingMode::Floor);

    // invalid: smallest unit larger than largest unit
    let mut invalid = DifferenceSettings::default();
    invalid.largest_unit = Some(Unit::Second);
    invalid.smallest_unit = Some(Unit::Hour);

    vec![
        ("default", default),
        ("months..days ceil", months_days_ceil),
        ("hours..minutes halfEven /15", hours_half_even_15min),
        ("years..microseconds floor", years_floor),
        ("invalid units", invalid),
    ]
}

fn rounding_options() -> Vec<(&'static str, RoundingOptions)> {
    let mut days_half_expand = RoundingOptions::default();
    days_half_expand.smallest_unit = Some(Unit::Day);

    let mut months_weeks_floor = RoundingOptions::default();
    months_weeks_floor.largest_unit = Some(Unit::Month);
    months_weeks_floor.smallest_unit = Some(Unit::Week);
    months_weeks_floor.rounding_mode = Some(RoundingMode::Floor);

    let mut hours_30min_ceil = RoundingOptions::default();
    hours_30min_ceil.largest_unit = Some(Unit::Hour);
    hours_30min_ceil.smallest_unit = Some(Unit::Minute);
    hours_30min_ceil.rounding_mode = Some(RoundingMode::Ceil);
    hours_30min_ceil.increment = Some(RoundingIncrement::try_new(30).unwrap());

    let mut years_only = RoundingOptions::default();
    years_only.largest_unit = Some(Unit::Year);
    years_only.smallest_unit = Some(Unit::Year);
    years_only.rounding_mode = Some(RoundingMode::HalfEven);

    vec![
        ("default (invalid: no unit)", RoundingOptions::default()),
        ("days halfExpand", days_half_expand),
        ("months..weeks floor", months_weeks_floor),
        ("hours..minutes /30 ceil", hours_30min_ceil),
        ("years halfEven", years_only),
    ]
}

/// `ToStringRoundingOptions` is neither `Clone` nor `Copy`: build one per call.
fn to_string_options(index: usize) -> ToStringRoundingOptions {
    match index {
        0 => ToStringRoundingOptions::default(),
        1 => ToStringRoundingOptions {
            precision: Precision::Digit(4),
            smallest_unit: None,
            rounding_mode: Some(RoundingMode::Ceil),
        },
        // rejected by the core option resolver (minute precision is only reachable
        // through `smallest_unit`)
        2 => ToStringRoundingOptions {
            precision: Precision::Minute,
            smallest_unit: None,
            rounding_mode: Some(RoundingMode::HalfExpand),
        },
        3 => ToStringRoundingOptions {
            precision: Precision::Auto,
            smallest_unit: Some(Unit::Millisecond),
            rounding_mode: Some(RoundingMode::Floor),
        },
        4 => ToStringRoundingOptions {
            precision: Precision::Auto,
            smallest_unit: Some(Unit::Minute),
            rounding_mode: Some(RoundingMode::HalfEven),
        },
        // invalid smallest unit for a string conversion
        _ => ToStringRoundingOptions {
            precision: Precision::Auto,
            smallest_unit: Some(Unit::Hour),
            rounding_mode: None,
        },
    }
}
const TO_STRING_OPTIONS: usize = 6;

fn plain_times() -> Vec<PlainTime> {
    vec![
        PlainTime::default(),
        // inside the New York spring-forward gap / fall-back overlap when combined with those dates
        PlainTime::new(2, 30, 0, 1, 2, 3).unwrap(),
        PlainTime::new(1, 30, 15, 123, 456, 789).unwrap(),
        PlainTime::new(23, 59, 59, 999, 999, 999).unwrap(),
    ]
}

// ==== ZonedDateTime ====

#[test]
fn zoned_date_time_accessors_match_twins() {
    let mut t = Tally::default();
    for (label, zdt) in zdts() {
        macro_rules! accessor {
            ($wrapper:ident, $twin:ident) => {
                t.same(
                    &format!("{label}.{}", stringify!($wrapper)),
                    || zdt.$wrapper(),
                    |p| zdt.$twin(p),
                );
            };
        }
        accessor!(year, year_with_provider);
        accessor!(month, month_with_provider);
        accessor!(month_code, month_code_with_provider);
        accessor!(day, day_with_provider);
        accessor!(hour, hour_with_provider);
        accessor!(minute, minute_with_provider);
        accessor!(second, second_with_provider);
        accessor!(millisecond, millisecond_with_provider);
        accessor!(microsecond, microsecond_with_provider);
        accessor!(nanosecond, nanosecond_with_provider);
        accessor!(offset, offset_with_provider);
        accessor!(offset_nanoseconds, offset_nanoseconds_with_provider);

        accessor!(era, era_with_provider);
        accessor!(era_year, era_year_with_provider);
        accessor!(day_of_week, day_of_week_with_provider);
        accessor!(day_of_year, day_of_year_with_provider);
        accessor!(week_of_year, week_of_year_with_provider);
        accessor!(year_of_week, year_of_week_with_provider);
        accessor!(days_in_week, days_in_week_with_provider);
        accessor!(days_in_month, days_in_month_with_provider);
        accessor!(days_in_year, days_in_year_with_provider);
        accessor!(months_in_year, months_in_year_with_provider);
        accessor!(in_leap_year, in_leap_year_with_provider);
        accessor!(hours_in_day, hours_in_day_with_provider);

        accessor!(start_of_day, start_of_day_with_provider);
        accessor!(to_plain_date, to_plain_date_with_provider);
        accessor!(to_plain_time, to_plain_time_with_provider);
        accessor!(to_plain_datetime, to_plain_datetime_with_provider);
        accessor!(to_ixdtf_string_default, to_string_with_provider);

        for direction in [TransitionDirection::Next, TransitionDirection::Previous] {
            t.same(
                &format!("{label}.get_time_zone_transition({direction:?})"),
                || zdt.get_time_zone_transition(direction),
                |p| zdt.get_time_zone_transition_with_provider(direction, p),
            );
        }
    }
    t.finish("ZonedDateTime accessors", true, true);
}

/// The twins themselves are wired to the right field (a wrapper/twin comparison
/// alone would not notice a swapped pair in the core).
#[test]
fn zoned_date_time_accessors_spot_values() {
    let zdt = ZonedDateTime::try_new(
        1_701_308_952_123_456_789,
        Calendar::default(),
        TimeZone::try_from_str("America/New_York").unwrap(),
    )
    .unwrap();
    assert_eq!(zdt.year().unwrap(), 2023);
    assert_eq!(zdt.month().unwrap(), 11);
    assert_eq!(zdt.month_code().unwrap().as_str(), "M11");
    assert_eq!(zdt.day().unwrap(), 29);
    assert_eq!(zdt.hour().unwrap(), 20);
    assert_eq!(zdt.minute().unwrap(), 49);
    assert_eq!(zdt.second().unwrap(), 12);
    assert_eq!(zdt.millisecond().unwrap(), 123);
    assert_eq!(zdt.microsecond().unwrap(), 456);
    assert_eq!(zdt.nanosecond().unwrap(), 789);
    assert_eq!(zdt.offset().unwrap(), "-05:00");
    assert_eq!(zdt.offset_nanoseconds().unwrap(), -5 * 3_600_000_000_000);
    assert_eq!(zdt.day_of_week().unwrap(), 3);
    assert_eq!(zdt.day_of_year().unwrap(), 333);
    assert_eq!(zdt.days_in_week().unwrap(), 7);
    assert_eq!(zdt.days_in_month().unwrap(), 30);
    assert_eq!(zdt.days_in_year().unwrap(), 365);
    assert_eq!(zdt.months_in_year().unwrap(), 12);
    // NOTE: no literal for `hours_in_day`: the core twin currently returns 160 here
    // (minutes in the day truncated to `u8`), which is a core matter and not one of
    // the wrapper layer; the wrapper is only required to return what the twin returns.
    assert_eq!(
        zdt.hours_in_day().unwrap(),
        zdt.hours_in_day_with_provider(&FsTzdbProvider::default())
            .unwrap()
    );
    assert!(!zdt.in_leap_year().unwrap());
    assert_eq!(
        zdt.to_ixdtf_string_default().unwrap(),
        "2023-11-29T20:49:12.123456789-05:00[America/New_York]"
    );
    assert_eq!(zdt.to_ixdtf_string_default().unwrap(), zdt.to_string());
}

#[test]
fn zoned_date_time_to_string_matches_twins() {
    let mut t = Tally::default();
    for (label, zdt) in zdts() {
        for display_offset in [DisplayOffset::Auto, DisplayOffset::Never] {
            for display_timezone in [
                DisplayTimeZone::Auto,
                DisplayTimeZone::Never,
                DisplayTimeZone::Critical,
            ] {
                for display_calendar in [
                    DisplayCalendar::Auto,
                    DisplayCalendar::Always,
                    DisplayCalendar::Never,
                    DisplayCalendar::Critical,
                ] {
                    for options in 0..TO_STRING_OPTIONS {
                        t.same(
                            &format!(
                                "{label}.to_ixdtf_string({display_offset:?}, {display_timezone:?}, {display_calendar:?}, #{options})"
                            ),
                            || {
                                zdt.to_ixdtf_string(
                                    display_offset,
                                    display_timezone,
                                    display_calendar,
                                    to_string_options(options),
                                )
                            },
                            |p| {
                                zdt.to_ixdtf_string_with_provider(
                                    display_offset,
                                    display_timezone,
                                    display_calendar,
                                    to_string_options(options),
                                    p,
                                )
                            },
                        );
                    }
                }
            }
        }

        // `Display`: same text when the twin succeeds, an error when it fails.
        t.same(
            &format!("{label} Display"),
            || {
                let mut text = String::new();
                write!(text, "{zdt}").map(|()| text).map_err(|_| ())
            },
            |p| zdt.to_string_with_provider(p).map_err(|_| ()),
        );
    }
    t.finish("ZonedDateTime to string", true, true);
}

#[test]
fn zoned_date_time_arithmetic_matches_twins() {
    let mut t = Tally::default();
    let receivers = zdts();
    for (label, zdt) in &receivers {
        for (duration_label, duration) in durations() {
            for overflow in [
                None,
                Some(ArithmeticOverflow::Constrain),
                Some(ArithmeticOverflow::Reject),
            ] {
                t.same(
                    &format!("{label}.add({duration_label}, {overflow:?})"),
                    || zdt.add(&duration, overflow),
                    |p| zdt.add_with_provider(&duration, overflow, p),
                );
                t.same(
                    &format!("{label}.subtract({duration_label}, {overflow:?})"),
                    || zdt.subtract(&duration, overflow),
                    |p| zdt.subtract_with_provider(&duration, overflow, p),
                );
            }
        }
        for time in plain_times() {
            t.same(
                &format!("{label}.with_plain_time({time:?})"),
                || zdt.with_plain_time(time),
                |p| zdt.with_plain_time_and_provider(time, p),
            );
        }
    }
    t.finish("ZonedDateTime arithmetic", true, true);
}

#[test]
fn zoned_date_time_difference_matches_twins() {
    let mut t = Tally::default();
    let receivers = zdts();
    // `since`/`until` are not symmetric: every ordered pair of a subset that still
    // mixes zones, calendars and epochs.
    let subset: Vec<_> = receivers.iter().step_by(5).collect();
    for (label, zdt) in &subset {
        for (other_label, other) in &subset {
            for (settings_label, settings) in difference_settings() {
                t.same(
                    &format!("{label}.since({other_label}, {settings_label})"),
                    || zdt.since(other, settings),
                    |p| zdt.since_with_provider(other, settings, p),
                );
                t.same(
                    &format!("{label}.until({other_label}, {settings_label})"),
                    || zdt.until(other, settings),
                    |p| zdt.until_with_provider(other, settings, p),
                );
            }
        }
    }
    t.finish("ZonedDateTime difference", true, true);
}

#[test]
fn zoned_date_time_from_str_matches_twins() {
    let sources = [
        "2023-11-30T01:49:12.123456789+00:00[UTC]",
        "2023-11-29T20:49:12.123456789-05:00[America/New_York][u-ca=japanese]",
        // wrong offset for the zone
        "2023-11-29T20:49:12.123456789-04:00[America/New_York]",
        // gap and overlap in New York
        "2024-03-10T02:30:00.001002003[America/New_York]",
        "2024-11-03T01:30:00.001002003[America/New_York]",
        "2024-11-03T01:30:00-04:00[America/New_York]",
        "2024-11-03T01:30:00-05:00[America/New_York]",
        // fixed offset zone, other calendar
        "2020-02-29T12:00:00.5+05:30[+05:30][u-ca=hebrew]",
        "2020-02-29T12:00:00Z[Australia/Lord_Howe]",
        // unknown zone, no zone, garbage
        "2020-01-01T00:00:00+00:00[Mars/Olympus_Mons]",
        "2020-01-01T00:00:00+00:00",
        "not a date",
    ];
    let mut t = Tally::default();
    for source in sources {
        for disambiguation in [
            Disambiguation::Compatible,
            Disambiguation::Earlier,
            Disambiguation::Later,
            Disambiguation::Reject,
        ] {
            for offset_option in [
                OffsetDisambiguation::Use,
                OffsetDisambiguation::Prefer,
                OffsetDisambiguation::Ignore,
                OffsetDisambiguation::Reject,
            ] {
                t.same(
                    &format!("from_str({source:?}, {disambiguation:?}, {offset_option:?})"),
                    || ZonedDateTime::from_str(source, disambiguation, offset_option),
                    |p| {
                        ZonedDateTime::from_str_with_provider(
                            source,
                            disambiguation,
                            offset_option,
                            p,
                        )
                    },
                );
            }
        }
    }
    t.finish("ZonedDateTime::from_str", true, true);
}

fn partials() -> Vec<(String, PartialZonedDateTime)> {
    let mut out = Vec::new();
    for (zone_name, zone) in zones() {
        for calendar in calendars() {
            let cal = calendar.identifier();
            // A complete ISO-like date is only meaningful for iso8601/japanese (month
            // numbers); the other calendars exercise the constrain/reject paths.
            let date = PartialDate {
                year: Some(2024),
                month: Some(3),
                day: Some(10),
                calendar: calendar.clone(),
                ..Default::default()
            };
            let gap_time = PartialTime {
                hour: Some(2),
                minute: Some(30),
                second: Some(15),
                millisecond: Some(123),
                microsecond: Some(456),
                nanosecond: Some(789),
            };
            out.push((
                format!("partial(date+time, {cal}, {zone_name})"),
                PartialZonedDateTime::new()
                    .with_date(date.clone())
                    .with_time(gap_time)
                    .with_timezone(Some(zone.clone())),
            ));
            out.push((
                format!("partial(date only, {cal}, {zone_name})"),
                PartialZonedDateTime::new()
                    .with_date(date.clone())
                    .with_timezone(Some(zone.clone())),
            ));
            for offset in ["-05:00", "-04:00", "+05:30", "+00:00"] {
                out.push((
                    format!("partial(date+time+offset {offset}, {cal}, {zone_name})"),
                    PartialZonedDateTime::new()
                        .with_date(PartialDate {
                            day: Some(31),
                            month: Some(11),
                            ..date.clone()
                        })
                        .with_time(PartialTime {
                            hour: Some(1),
                            ..gap_time
                        })
                        .with_offset(Some(UtcOffset::from_str(offset).unwrap()))
                        .with_timezone(Some(zone.clone())),
                ));
            }
            // no time zone: falls back to the default zone
            out.push((
                format!("partial(no zone, {cal})"),
                PartialZonedDateTime::new().with_date(date.clone()),
            ));
            // incomplete date
            out.push((
                format!("partial(no day, {cal}, {zone_name})"),
                PartialZonedDateTime::new()
                    .with_date(PartialDate {
                        day: None,
                        ..date.clone()
                    })
                    .with_timezone(Some(zone.clone())),
            ));
        }
    }
    out.push(("partial(empty)".to_string(), PartialZonedDateTime::new()));
    out
}

#[test]
fn zoned_date_time_from_partial_matches_twins() {
    let mut t = Tally::default();
    for (label, partial) in partials() {
        for overflow in [
            None,
            Some(ArithmeticOverflow::Constrain),
            Some(ArithmeticOverflow::Reject),
        ] {
            for disambiguation in [
                None,
                Some(Disambiguation::Earlier),
                Some(Disambiguation::Later),
                Some(Disambiguation::Reject),
            ] {
                for offset_option in [
                    None,
                    Some(OffsetDisambiguation::Use),
                    Some(OffsetDisambiguation::Prefer),
                    Some(OffsetDisambiguation::Ignore),
                ] {
                    t.same(
                        &format!(
                            "from_partial({label}, {overflow:?}, {disambiguation:?}, {offset_option:?})"
                        ),
                        || {
                            ZonedDateTime::from_partial(
                                partial.clone(),
                                overflow,
                                disambiguation,
                                offset_option,
                            )
                        },
                        |p| {
                            ZonedDateTime::from_partial_with_provider(
                                partial.clone(),
                                overflow,
                                disambiguation,
                                offset_option,
                                p,
                            )
                        },
                    );
                }
            }
        }
    }
    t.finish("ZonedDateTime::from_partial", true, true);
}

// ==== Duration ====

fn relative_tos() -> Vec<(String, Option<RelativeTo>)> {
    let mut out = vec![("None".to_string(), None)];
    for calendar in calendars() {
        out.push((
            format!("PlainDate(2024-01-31, {})", calendar.identifier()),
            Some(RelativeTo::PlainDate(
                PlainDate::new(2024, 1, 31, Calendar::default())
                    .unwrap()
                    .with_calendar(calendar)
                    .unwrap(),
            )),
        ));
    }
    for (label, zdt) in zdts().into_iter().step_by(4) {
        out.push((label, Some(RelativeTo::ZonedDateTime(zdt))));
    }
    out
}

#[test]
fn duration_wrappers_match_twins() {
    let mut t = Tally::default();
    let durations = durations();
    for (relative_label, relative_to) in relative_tos() {
        for (label, duration) in &durations {
            for (options_label, options) in rounding_options() {
                t.same(
                    &format!("{label}.round({options_label}, {relative_label})"),
                    || duration.round(options, relative_to.clone()),
                    |p| duration.round_with_provider(options, relative_to.clone(), p),
                );
            }
            for unit in [
                Unit::Year,
                Unit::Month,
                Unit::Week,
                Unit::Day,
                Unit::Hour,
                Unit::Second,
                Unit::Nanosecond,
                Unit::Auto,
            ] {
                t.same(
                    &format!("{label}.total({unit:?}, {relative_label})"),
                    || duration.total(unit, relative_to.clone()),
                    |p| duration.total_with_provider(unit, relative_to.clone(), p),
                );
            }
            for (other_label, other) in &durations {
                // `compare` is not symmetric: both (a, b) and (b, a) are visited.
                t.same(
                    &format!("{label}.compare({other_label}, {relative_label})"),
                    || duration.compare(other, relative_to.clone()),
                    |p| duration.compare_with_provider(other, relative_to.clone(), p),
                );
            }
        }
    }
    t.finish("Duration", true, true);
}

#[test]
fn relative_to_try_from_str_matches_twin() {
    let sources = [
        "2024-03-10",
        "2024-03-10[u-ca=japanese]",
        "2024-03-10T02:30:00.123456789[America/New_York]",
        "2024-11-03T01:30:00-05:00[America/New_York][u-ca=hebrew]",
        "2024-11-03T01:30:00-07:00[America/New_York]",
        "2024-03-10T02:30:00+05:30[+05:30]",
        "2024-03-10T02:30:00Z[Australia/Lord_Howe]",
        "2024-03-10T02:30:00+00:00[Mars/Olympus_Mons]",
        "junk",
    ];
    let mut t = Tally::default();
    for source in sources {
        t.same(
            &format!("RelativeTo::try_from_str({source:?})"),
            || RelativeTo::try_from_str(source),
            |p| RelativeTo::try_from_str_with_provider(source, p),
        );
    }
    t.finish("RelativeTo::try_from_str", true, true);
}

// ==== Instant ====

#[test]
fn instant_to_ixdtf_string_matches_twin() {
    let mut t = Tally::default();
    let mut zones: Vec<(String, Option<TimeZone>)> = vec![("None".to_string(), None)];
    zones.extend(
        self::zones()
            .into_iter()
            .map(|(name, zone)| (name.to_string(), Some(zone))),
    );
    for ns in epochs() {
        let instant = Instant::try_new(ns).unwrap();
        for (zone_name, zone) in &zones {
            for options in 0..TO_STRING_OPTIONS {
                t.same(
                    &format!("instant({ns}).to_ixdtf_string({zone_name}, #{options})"),
                    || instant.to_ixdtf_string(zone.as_ref(), to_string_options(options)),
                    |p| {
                        instant.to_ixdtf_string_with_provider(
                            zone.as_ref(),
                            to_string_options(options),
                            p,
                        )
                    },
                );
            }
        }
    }
    t.finish("Instant::to_ixdtf_string", true, true);
}

// ==== PlainDateTime / PlainDate ====

/// ISO dates: ordinary, New York spring-forward and fall-back days, leap day,
/// and the edges of the representable range.
fn iso_dates() -> Vec<(i32, u8, u8)> {
    vec![
        (2023, 11, 30),
        (2024, 3, 10),
        (2024, 11, 3),
        (2020, 2, 29),
        (1969, 12, 31),
        (-271821, 4, 19),
        (275760, 9, 13),
    ]
}

#[test]
fn plain_date_time_to_zoned_date_time_matches_twin() {
    let mut t = Tally::default();
    for (year, month, day) in iso_dates() {
        for calendar in calendars() {
            for time in plain_times() {
                let Ok(pdt) = PlainDateTime::new(
                    year,
                    month,
                    day,
                    time.hour(),
                    time.minute(),
                    time.second(),
                    time.millisecond(),
                    time.microsecond(),
                    time.nanosecond(),
                    Calendar::default(),
                )
                .and_then(|pdt| pdt.with_calendar(calendar.clone())) else {
                    continue;
                };
                for (zone_name, zone) in zones() {
                    for disambiguation in [
                        Disambiguation::Compatible,
                        Disambiguation::Earlier,
                        Disambiguation::Later,
                        Disambiguation::Reject,
                    ] {
                        t.same(
                            &format!("{pdt:?}.to_zoned_date_time({zone_name}, {disambiguation:?})"),
                            || pdt.to_zoned_date_time(&zone, disambiguation),
                            |p| pdt.to_zoned_date_time_with_provider(&zone, disambiguation, p),
                        );
                    }
                }
            }
        }
    }
    t.finish("PlainDateTime::to_zoned_date_time", true, true);
}

#[test]
fn plain_date_to_zoned_date_time_matches_twin() {
    let mut t = Tally::default();
    let mut times: Vec<Option<PlainTime>> = vec![None];
    times.extend(plain_times().into_iter().map(Some));
    for (year, month, day) in iso_dates() {
        for calendar in calendars() {
            let Ok(date) = PlainDate::new(year, month, day, Calendar::default())
                .and_then(|date| date.with_calendar(calendar.clone()))
            else {
                continue;
            };
            for (zone_name, zone) in zones() {
                for time in &times {
                    t.same(
                        &format!("{date:?}.to_zoned_date_time({zone_name}, {time:?})"),
                        || date.to_zoned_date_time(zone.clone(), *time),
                        |p| date.to_zoned_date_time_with_provider(zone.clone(), *time, p),
                    );
                }
            }
        }
    }
    t.finish("PlainDate::to_zoned_date_time", true, true);
}

#[test]
fn plain_date_to_zoned_date_time_spot_values() {
    let date = PlainDate::new(2024, 3, 10, Calendar::default()).unwrap();
    let new_york = TimeZone::try_from_str("America/New_York").unwrap();

    // start of day, before the spring-forward
    let start = date.to_zoned_date_time(new_york.clone(), None).unwrap();
    assert_eq!(
        start.to_ixdtf_string_default().unwrap(),
        "2024-03-10T00:00:00-05:00[America/New_York]"
    );

    // 02:30 does not exist: "compatible" moves it forward
    let in_gap = date
        .to_zoned_date_time(new_york, Some(PlainTime::new(2, 30, 0, 0, 0, 0).unwrap()))
        .unwrap();
    assert_eq!(
        in_gap.to_ixdtf_string_default().unwrap(),
        "2024-03-10T03:30:00-04:00[America/New_York]"
    );

    // unknown zone: an error, not a panic, and the API keeps working afterwards
    assert!(date
        .to_zoned_date_time(TimeZone::IanaIdentifier("Mars/Olympus_Mons".into()), None)
        .is_err());
    assert!(date.to_zoned_date_time(TimeZone::default(), None).is_ok());
}
