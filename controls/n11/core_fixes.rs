//! Shows three fixes in the core (provider-taking) layer and that every
//! convenience wrapper still returns exactly what its `*_with_provider` twin
//! returns on a fresh `FsTzdbProvider`.
//!
//! Run with: `cargo test --offline --features compiled_data --test core_fixes`
#![cfg(feature = "compiled_data")]

use temporal_rs::{
    options::{
        Disambiguation, DisplayCalendar, DisplayOffset, DisplayTimeZone, OffsetDisambiguation,
        RelativeTo, RoundingMode, ToStringRoundingOptions, Unit,
    },
    parsers::Precision,
    tzdb::FsTzdbProvider,
    TemporalResult, ZonedDateTime,
};

/// Results compared as (value | error kind + message).
fn outcome<T: core::fmt::Debug>(r: &TemporalResult<T>) -> String {
    match r {
        Ok(v) => format!("Ok({v:?})"),
        Err(e) => format!("Err({:?}: {})", e.kind(), e),
    }
}

fn parse(source: &str) -> ZonedDateTime {
    ZonedDateTime::from_str_with_provider(
        source,
        Disambiguation::Compatible,
        OffsetDisambiguation::Reject,
        &FsTzdbProvider::default(),
    )
    .unwrap_or_else(|e| panic!("{source}: {e}"))
}

fn hours_in_day_both(source: &str) -> u8 {
    let zdt = parse(source);
    let core = zdt.hours_in_day_with_provider(&FsTzdbProvider::default());
    let wrapper = zdt.hours_in_day();
    assert_eq!(
        outcome(&wrapper),
        outcome(&core),
        "hours_in_day twin: {source}"
    );
    core.unwrap()
}

// ---- (1) hours_in_day -------------------------------------------------------

#[test]
fn hours_in_day_around_us_dst_changes() {
    // Ordinary day.
    assert_eq!(
        hours_in_day_both("2024-03-09T12:00:00[America/New_York]"),
        24
    );
    // Spring forward (02:00 -> 03:00), 10 March 2024.
    assert_eq!(
        hours_in_day_both("2024-03-10T12:00:00[America/New_York]"),
        23
    );
    // Also when asked from before the gap on the same day.
    assert_eq!(
        hours_in_day_both("2024-03-10T00:30:00[America/New_York]"),
        23
    );
    assert_eq!(
        hours_in_day_both("2024-03-11T12:00:00[America/New_York]"),
        24
    );
    // Fall back (02:00 -> 01:00), 3 November 2024.
    assert_eq!(
        hours_in_day_both("2024-11-02T12:00:00[America/New_York]"),
        24
    );
    assert_eq!(
        hours_in_day_both("2024-11-03T12:00:00[America/New_York]"),
        25
    );
    assert_eq!(
        hours_in_day_both("2024-11-04T12:00:00[America/New_York]"),
        24
    );
    // Zones without DST and fixed-offset zones are always 24.
    assert_eq!(hours_in_day_both("2024-03-10T12:00:00[UTC]"), 24);
    assert_eq!(hours_in_day_both("2024-03-10T12:00:00[+05:30]"), 24);
    assert_eq!(hours_in_day_both("2024-06-15T12:00:00[Asia/Tokyo]"), 24);
}

// ---- (2) UTC offsets with a seconds component -------------------------------

// Africa/Monrovia was at -00:44:30 until 1972-01-07.
const MONROVIA: &str = "1971-06-01T12:00:00-00:44:30[Africa/Monrovia]";
// 1971-06-01T12:00:00Z is 516 days + 12 h after the epoch; local noon is 44 min 30 s later.
const MONROVIA_EPOCH_NS: i128 = ((516 * 24 + 12) * 3600 + 44 * 60 + 30) * 1_000_000_000;
// The seconds field is really compared: this one is wrong by 14 seconds (it is
// what the old code made of "-00:44:30", namely 44 min + 44 s).
const MONROVIA_WRONG: &str = "1971-06-01T12:00:00-00:44:44[Africa/Monrovia]";

#[test]
fn zoned_date_time_from_str_offset_with_seconds() {
    for (source, option) in [
        (MONROVIA, OffsetDisambiguation::Reject),
        (MONROVIA, OffsetDisambiguation::Use),
        (MONROVIA, OffsetDisambiguation::Prefer),
        (MONROVIA, OffsetDisambiguation::Ignore),
        (MONROVIA_WRONG, OffsetDisambiguation::Reject),
        (MONROVIA_WRONG, OffsetDisambiguation::Prefer),
    ] {
        let core = ZonedDateTime::from_str_with_provider(
            source,
            Disambiguation::Compatible,
            option,
            &FsTzdbProvider::default(),
        );
        let wrapper = ZonedDateTime::from_str(source, Disambiguation::Compatible, option);
        assert_eq!(
            outcome(&wrapper),
            outcome(&core),
            "from_str twin: {source} {option:?}"
        );

        if source == MONROVIA_WRONG && option == OffsetDisambiguation::Reject {
            assert!(core.is_err(), "an offset that is 14 s off must be rejected");
        } else {
            let zdt = core.unwrap_or_else(|e| panic!("{source} {option:?}: {e}"));
            assert_eq!(
                zdt.epoch_nanoseconds().as_i128(),
                MONROVIA_EPOCH_NS,
                "{source} {option:?}"
            );
        }
    }
}

#[test]
fn relative_to_offset_with_seconds() {
    let core = RelativeTo::try_from_str_with_provider(MONROVIA, &FsTzdbProvider::default());
    let wrapper = RelativeTo::try_from_str(MONROVIA);
    assert_eq!(outcome(&wrapper), outcome(&core), "RelativeTo twin");
    match core.unwrap() {
        RelativeTo::ZonedDateTime(zdt) => {
            assert_eq!(zdt.epoch_nanoseconds().as_i128(), MONROVIA_EPOCH_NS)
        }
        other => panic!("expected a ZonedDateTime, got {other:?}"),
    }

    let core = RelativeTo::try_from_str_with_provider(MONROVIA_WRONG, &FsTzdbProvider::default());
    let wrapper = RelativeTo::try_from_str(MONROVIA_WRONG);
    assert_eq!(
        outcome(&wrapper),
        outcome(&core),
        "RelativeTo twin (wrong offset)"
    );
    assert!(core.is_err());

    // A plain date still falls back to PlainDate; minute-only offsets work,
    // including ones with a non-zero minute field.
    for source in [
        "2024-03-10",
        "2024-03-10T12:00:00-04:00[America/New_York]",
        "2024-01-01T12:00:00+05:30[Asia/Kolkata]",
    ] {
        let core = RelativeTo::try_from_str_with_provider(source, &FsTzdbProvider::default());
        let wrapper = RelativeTo::try_from_str(source);
        assert_eq!(
            outcome(&wrapper),
            outcome(&core),
            "RelativeTo twin: {source}"
        );
        assert!(core.is_ok(), "{source}");
    }
}

// ---- (3) rounded strings ----------------------------------------------------

fn ixdtf_both(zdt: &ZonedDateTime, options: impl Fn() -> ToStringRoundingOptions) -> String {
    let core = zdt.to_ixdtf_string_with_provider(
        DisplayOffset::Auto,
        DisplayTimeZone::Auto,
        DisplayCalendar::Auto,
        options(),
        &FsTzdbProvider::default(),
    );
    let wrapper = zdt.to_ixdtf_string(
        DisplayOffset::Auto,
        DisplayTimeZone::Auto,
        DisplayCalendar::Auto,
        options(),
    );
    assert_eq!(outcome(&wrapper), outcome(&core), "to_ixdtf_string twin");
    core.unwrap()
}

fn rounding(unit: Unit, mode: RoundingMode) -> impl Fn() -> ToStringRoundingOptions {
    move || ToStringRoundingOptions {
        precision: Precision::Auto,
        smallest_unit: Some(unit),
        rounding_mode: Some(mode),
    }
}

#[test]
fn to_ixdtf_string_prints_the_rounded_instant() {
    let zdt = parse("2024-03-09T12:34:56.789[America/New_York]");

    assert_eq!(
        ixdtf_both(&zdt, rounding(Unit::Minute, RoundingMode::HalfExpand)),
        "2024-03-09T12:35-05:00[America/New_York]"
    );
    assert_eq!(
        ixdtf_both(&zdt, rounding(Unit::Minute, RoundingMode::Trunc)),
        "2024-03-09T12:34-05:00[America/New_York]"
    );
    assert_eq!(
        ixdtf_both(&zdt, rounding(Unit::Second, RoundingMode::HalfExpand)),
        "2024-03-09T12:34:57-05:00[America/New_York]"
    );
    assert_eq!(
        ixdtf_both(&zdt, rounding(Unit::Second, RoundingMode::Floor)),
        "2024-03-09T12:34:56-05:00[America/New_York]"
    );
    assert_eq!(
        ixdtf_both(&zdt, ToStringRoundingOptions::default),
        "2024-03-09T12:34:56.789-05:00[America/New_York]"
    );

    // Rounding carries into the hour, the day and the year: the date/time and
    // the offset both belong to the rounded instant.
    let zdt = parse("2024-12-31T23:59:45[America/New_York]");
    assert_eq!(
        ixdtf_both(&zdt, rounding(Unit::Minute, RoundingMode::HalfExpand)),
        "2025-01-01T00:00-05:00[America/New_York]"
    );
    // (Rounding up onto the exact second of a DST transition is left out: what
    // the bundled provider answers at the transition second itself is not the
    // subject of this test.)
    let zdt = parse("2024-03-10T01:59:45[America/New_York]");
    assert_eq!(
        ixdtf_both(&zdt, rounding(Unit::Minute, RoundingMode::Trunc)),
        "2024-03-10T01:59-05:00[America/New_York]"
    );

    // The default string (no rounding) and the wrapper agree too.
    // (The convenience twin of `to_string_with_provider` is the `Display` impl.)
    let core = zdt
        .to_string_with_provider(&FsTzdbProvider::default())
        .unwrap();
    let wrapper = format!("{zdt}");
    assert_eq!(wrapper, core, "to_string twin");
    assert_eq!(core, "2024-03-10T01:59:45-05:00[America/New_York]");
}
