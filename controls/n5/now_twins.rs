//! Checks the six `Now` convenience functions against their twins under a
//! scripted clock / host time zone.
//!
//! Build and run (from the crate root, after copying this file to examples/):
//!
//!   RUSTFLAGS="--cfg temporal_verif" cargo run --offline --features compiled_data --example now_twins
//!
//! The scripted environment is per thread (thread locals), so the concurrent
//! part can give every thread its own (reading, host answer).

use std::cell::{Cell, RefCell};
use std::panic::{catch_unwind, AssertUnwindSafe};
use std::time::{Duration, SystemTime, UNIX_EPOCH};

use temporal_rs::time::EpochNanoseconds;
use temporal_rs::tzdb::FsTzdbProvider;
use temporal_rs::verif_hooks::{self, iana_time_zone::GetTimezoneError, Env};
use temporal_rs::{
    Instant, Now, PlainDate, PlainDateTime, PlainTime, TemporalError, TemporalResult,
    TimeZone, ZonedDateTime,
};

// ---------------------------------------------------------------- script

#[derive(Clone, Debug)]
enum Host {
    Ok(&'static str),
    Os,
    Parse,
    Io,
}

impl Host {
    fn answer(&self) -> Result<String, GetTimezoneError> {
        match self {
            Host::Ok(s) => Ok((*s).to_string()),
            Host::Os => Err(GetTimezoneError::OsError),
            Host::Parse => Err(GetTimezoneError::FailedParsingString),
            Host::Io => Err(GetTimezoneError::IoError(std::io::Error::new(
                std::io::ErrorKind::NotFound,
                "scripted: /etc/localtime is missing",
            ))),
        }
    }
}

thread_local! {
    static READING: Cell<SystemTime> = const { Cell::new(UNIX_EPOCH) };
    static HOST: RefCell<Host> = const { RefCell::new(Host::Os) };
    static NOW_CALLS: Cell<u32> = const { Cell::new(0) };
    static HOST_CALLS: Cell<u32> = const { Cell::new(0) };
    static LOCKS_HELD: Cell<i32> = const { Cell::new(0) };
    static LOCKS_TAKEN: Cell<u32> = const { Cell::new(0) };
    static PANIC_SITE: RefCell<String> = const { RefCell::new(String::new()) };
}

struct Scripted;

impl Env for Scripted {
    fn after_lock(&self, _lock: usize, _exclusive: bool, acquired: bool, _poisoned: bool) {
        if acquired {
            LOCKS_HELD.with(|c| c.set(c.get() + 1));
            LOCKS_TAKEN.with(|c| c.set(c.get() + 1));
        }
    }
    fn after_unlock(&self, _lock: usize, _exclusive: bool, _panicking: bool) {
        LOCKS_HELD.with(|c| c.set(c.get() - 1));
    }
    fn now(&self) -> SystemTime {
        NOW_CALLS.with(|c| c.set(c.get() + 1));
        READING.with(|r| r.get())
    }
    fn host_tz(&self) -> Result<String, GetTimezoneError> {
        HOST_CALLS.with(|c| c.set(c.get() + 1));
        HOST.with(|h| h.borrow().answer())
    }
}

static SCRIPTED: Scripted = Scripted;

fn script(reading: SystemTime, host: &Host) {
    READING.with(|r| r.set(reading));
    HOST.with(|h| *h.borrow_mut() = host.clone());
}

fn reset_counters() {
    NOW_CALLS.with(|c| c.set(0));
    HOST_CALLS.with(|c| c.set(0));
    LOCKS_TAKEN.with(|c| c.set(0));
}

// ---------------------------------------------------------------- twins

/// What `sys::get_system_nanoseconds` + `EpochNanoseconds::try_from` specify.
fn twin_epoch(reading: SystemTime) -> TemporalResult<EpochNanoseconds> {
    let nanos = reading
        .duration_since(UNIX_EPOCH)
        .map_err(|e| TemporalError::general(e.to_string()))?
        .as_nanos();
    EpochNanoseconds::try_from(nanos)
}

fn twin_host(host: &Host) -> TemporalResult<String> {
    host.answer()
        .map_err(|e| TemporalError::general(e.to_string()))
}

/// The zone first (host only if nothing was supplied), then the clock.
fn twin_info(
    reading: SystemTime,
    host: &Host,
    supplied: &Option<TimeZone>,
) -> TemporalResult<(EpochNanoseconds, TimeZone)> {
    let zone = match supplied {
        Some(z) => z.clone(),
        None => TimeZone::IanaIdentifier(twin_host(host)?),
    };
    Ok((twin_epoch(reading)?, zone))
}

#[derive(Debug, PartialEq)]
enum Outcome<T> {
    Value(T),
    Error(TemporalError),
    Panic,
}

fn run<T>(f: impl FnOnce() -> TemporalResult<T>) -> Outcome<T> {
    match catch_unwind(AssertUnwindSafe(f)) {
        Ok(Ok(v)) => Outcome::Value(v),
        Ok(Err(e)) => Outcome::Error(e),
        Err(_) => Outcome::Panic,
    }
}

// ---------------------------------------------------------------- checks

#[derive(Default)]
struct Tally {
    checks: u64,
    failures: Vec<String>,
    values: u64,
    generic: u64,
    range: u64,
    other_err: u64,
    inherited_panics: u64,
    inherited_sites: Vec<String>,
}

impl Tally {
    fn merge(&mut self, o: Tally) {
        self.checks += o.checks;
        self.failures.extend(o.failures);
        self.values += o.values;
        self.generic += o.generic;
        self.range += o.range;
        self.other_err += o.other_err;
        self.inherited_panics += o.inherited_panics;
        for s in o.inherited_sites {
            if !self.inherited_sites.contains(&s) {
                self.inherited_sites.push(s);
            }
        }
    }
}

/// Expected calls of (now, host_tz) for one resolve.
fn expected_calls(host: &Host, supplied: &Option<TimeZone>) -> (u32, u32) {
    match supplied {
        Some(_) => (1, 0),
        None => match host {
            Host::Ok(_) => (1, 1),
            _ => (0, 1), // the clock is not read when the host lookup fails
        },
    }
}

#[allow(clippy::too_many_arguments)]
fn compare<T: PartialEq + std::fmt::Debug>(
    t: &mut Tally,
    what: &str,
    ctx: &str,
    wrapper: impl FnOnce() -> TemporalResult<T>,
    twin: impl FnOnce() -> TemporalResult<T>,
    calls: (u32, u32),
    locks: Option<std::ops::RangeInclusive<u32>>,
) {
    reset_counters();
    let got = run(wrapper);
    let now_calls = NOW_CALLS.with(|c| c.get());
    let host_calls = HOST_CALLS.with(|c| c.get());
    let locks_taken = LOCKS_TAKEN.with(|c| c.get());
    let held = LOCKS_HELD.with(|c| c.get());
    let want = run(twin);
    t.checks += 1;
    match &got {
        Outcome::Value(_) => t.values += 1,
        Outcome::Error(e) => match e.kind() {
            temporal_rs::error::ErrorKind::Generic => t.generic += 1,
            temporal_rs::error::ErrorKind::Range => t.range += 1,
            _ => t.other_err += 1,
        },
        Outcome::Panic => {}
    }
    if got == Outcome::Panic {
        if want == Outcome::Panic {
            // The provider-taking core function panics by itself for this
            // input, with a fresh provider and without any of the code under
            // test: inherited from the core, listed separately.
            t.inherited_panics += 1;
            let site = PANIC_SITE.with(|p| p.borrow().clone());
            if !t.inherited_sites.contains(&site) {
                t.inherited_sites.push(site);
            }
        } else {
            t.failures.push(format!("{what} {ctx}: PANIC (the twin does not panic)"));
        }
    }
    if let Outcome::Error(e) = &got {
        if e.kind() == temporal_rs::error::ErrorKind::Assert {
            t.failures.push(format!("{what} {ctx}: assertion error {e:?}"));
        }
    }
    if got != want {
        t.failures
            .push(format!("{what} {ctx}: got {got:?}, twin gives {want:?}"));
    }
    if (now_calls, host_calls) != calls {
        t.failures.push(format!(
            "{what} {ctx}: (now, host_tz) called {:?}, expected {calls:?}",
            (now_calls, host_calls)
        ));
    }
    if held != 0 {
        t.failures
            .push(format!("{what} {ctx}: {held} lock(s) still held after the call"));
    }
    if let Some(r) = locks {
        if !r.contains(&locks_taken) {
            t.failures
                .push(format!("{what} {ctx}: {locks_taken} lock acquisitions, expected {r:?}"));
        }
    }
}

fn check_combination(
    t: &mut Tally,
    reading: SystemTime,
    host: &Host,
    supplied: &Option<TimeZone>,
) {
    script(reading, host);
    let ctx = format!("[reading {reading:?} | host {host:?} | supplied {supplied:?}]");
    let calls = expected_calls(host, supplied);
    // The provider lock is taken at most once per plain_* call (not at all
    // if resolving failed first, once otherwise; the pre-refactor code took it
    // exactly once in every case - both are accepted).
    let lock_range = Some(0..=1);

    compare::<Instant>(
        t,
        "instant",
        &ctx,
        Now::instant,
        || Ok(Instant::from(twin_epoch(reading)?)),
        (1, 0),
        Some(0..=0),
    );
    compare::<String>(
        t,
        "time_zone_identifier",
        &ctx,
        Now::time_zone_identifier,
        || twin_host(host),
        (0, 1),
        Some(0..=0),
    );
    compare::<ZonedDateTime>(
        t,
        "zoneddatetime_iso",
        &ctx,
        || Now::zoneddatetime_iso(supplied.clone()),
        || {
            let (ns, tz) = twin_info(reading, host, supplied)?;
            Now::zoneddatetime_iso_with_system_info(ns, tz)
        },
        calls,
        Some(0..=0),
    );
    compare::<PlainDateTime>(
        t,
        "plain_datetime_iso",
        &ctx,
        || Now::plain_datetime_iso(supplied.clone()),
        || {
            let (ns, tz) = twin_info(reading, host, supplied)?;
            let fresh = FsTzdbProvider::default();
            Now::plain_datetime_iso_with_provider_and_system_info(ns, tz, &fresh)
        },
        calls,
        lock_range.clone(),
    );
    compare::<PlainDate>(
        t,
        "plain_date_iso",
        &ctx,
        || Now::plain_date_iso(supplied.clone()),
        || {
            let (ns, tz) = twin_info(reading, host, supplied)?;
            let fresh = FsTzdbProvider::default();
            Now::plain_date_iso_with_provider_and_system_info(ns, tz, &fresh)
        },
        calls,
        lock_range.clone(),
    );
    compare::<PlainTime>(
        t,
        "plain_time_iso",
        &ctx,
        || Now::plain_time_iso(supplied.clone()),
        || {
            let (ns, tz) = twin_info(reading, host, supplied)?;
            let fresh = FsTzdbProvider::default();
            Now::plain_time_iso_with_provider_and_system_info(ns, tz, &fresh)
        },
        calls,
        lock_range,
    );
}

// ---------------------------------------------------------------- data

const MAX_INSTANT_SECS: u64 = 8_640_000_000_000; // 8.64e21 ns

fn readings() -> Vec<SystemTime> {
    vec![
        UNIX_EPOCH - Duration::from_nanos(1),                 // just before the epoch
        UNIX_EPOCH - Duration::from_secs(86_400 * 365 * 100), // long before the epoch
        UNIX_EPOCH,                                           // zero
        UNIX_EPOCH + Duration::from_nanos(1),
        UNIX_EPOCH + Duration::new(1_741_751_188, 77_363_694), // 2025-03-12
        UNIX_EPOCH + Duration::new(1_743_296_399, 999_999_999), // Berlin: 1s before DST gap
        UNIX_EPOCH + Duration::from_secs(4_102_444_800),      // 2100
        UNIX_EPOCH + Duration::from_secs(MAX_INSTANT_SECS) - Duration::from_nanos(1),
        UNIX_EPOCH + Duration::from_secs(MAX_INSTANT_SECS),   // largest instant
        UNIX_EPOCH + Duration::from_secs(MAX_INSTANT_SECS) + Duration::from_nanos(1), // range
        UNIX_EPOCH + Duration::from_secs(i64::MAX as u64 / 4), // huge
    ]
}

fn hosts() -> Vec<Host> {
    vec![
        Host::Ok("Europe/Berlin"),
        Host::Ok("America/New_York"),
        Host::Ok("UTC"),
        Host::Ok(""),
        Host::Ok("Not/AZone"),
        Host::Ok("europe/berlin"),
        Host::Ok("+05:30"),
        Host::Ok(" odd\u{0}\u{1F600} answer\n"),
        Host::Ok("Etc/GMT+999999999999999999999999"),
        Host::Os,
        Host::Parse,
        Host::Io,
    ]
}

fn supplied_zones() -> Vec<Option<TimeZone>> {
    vec![
        None,
        Some(TimeZone::try_from_identifier_str("UTC").unwrap()),
        Some(TimeZone::try_from_identifier_str("+05:30").unwrap()),
        Some(TimeZone::try_from_identifier_str("-23:59").unwrap()),
        Some(TimeZone::try_from_identifier_str("America/Chicago").unwrap()),
        Some(TimeZone::try_from_identifier_str("Pacific/Kiritimati").unwrap()),
        Some(TimeZone::IanaIdentifier("Not/AZone".to_string())),
        Some(TimeZone::IanaIdentifier(String::new())),
    ]
}

fn main() {
    // keep the output readable: panics are caught and reported by `compare`
    std::panic::set_hook(Box::new(|info| {
        let site = info
            .location()
            .map(|l| format!("{}:{}", l.file(), l.line()))
            .unwrap_or_default();
        PANIC_SITE.with(|p| *p.borrow_mut() = site);
    }));
    verif_hooks::install(&SCRIPTED);
    // Initialise the lazily created shared provider, so that the lock counts
    // below only see the provider lock and not the one-time initialisation.
    verif_hooks::with_shared_provider(|_| ()).unwrap();

    let readings = readings();
    let hosts = hosts();
    let supplied = supplied_zones();
    let mut total = Tally::default();

    // 1. the full matrix, sequentially: failing and succeeding combinations
    //    alternate, so every success is also a "call after a failed call".
    for r in &readings {
        for h in &hosts {
            for s in &supplied {
                check_combination(&mut total, *r, h, s);
            }
        }
    }
    let sequential = total.checks;

    // 2. a fixed good combination right after each kind of failure
    let good = (readings[4], Host::Ok("Europe/Berlin"));
    for (r, h, s) in [
        (readings[0], Host::Ok("Europe/Berlin"), None),      // clock before epoch
        (readings[9], Host::Ok("Europe/Berlin"), None),      // beyond the largest instant
        (readings[4], Host::Os, None),                       // host lookup fails
        (readings[4], Host::Ok(""), None),                   // empty host answer
        (readings[4], Host::Ok("Not/AZone"), None),          // unknown host answer
        (readings[4], Host::Ok("UTC"), supplied[6].clone()), // unknown supplied zone
    ] {
        check_combination(&mut total, r, &h, &s);
        check_combination(&mut total, good.0, &good.1, &None);
        check_combination(&mut total, good.0, &good.1, &supplied[4]);
    }

    // 3. the same matrix from 8 threads at once, each starting at a different
    //    offset, against the one shared provider.
    let n_threads = 8;
    let tallies: Vec<Tally> = std::thread::scope(|scope| {
        let handles: Vec<_> = (0..n_threads)
            .map(|i| {
                let (readings, hosts, supplied) = (&readings, &hosts, &supplied);
                scope.spawn(move || {
                    let mut t = Tally::default();
                    let mut combos = Vec::new();
                    for r in readings {
                        for h in hosts {
                            for s in supplied {
                                combos.push((*r, h, s));
                            }
                        }
                    }
                    let n = combos.len();
                    let start = i * n / n_threads;
                    // a slice of the matrix per thread, overlapping with the next one
                    for k in 0..(n / 4) {
                        let (r, h, s) = combos[(start + k * 7) % n];
                        check_combination(&mut t, r, h, s);
                    }
                    t
                })
            })
            .collect();
        handles.into_iter().map(|h| h.join().unwrap()).collect()
    });
    for t in tallies {
        total.merge(t);
    }

    println!(
        "combinations: {} readings x {} host answers x {} supplied zones",
        readings.len(),
        hosts.len(),
        supplied.len()
    );
    println!(
        "checks: {} ({} sequential), values {}, generic errors {}, range errors {}, other errors {}",
        total.checks, sequential, total.values, total.generic, total.range, total.other_err
    );
    if total.inherited_panics > 0 {
        println!(
            "NOTE: {} calls panicked exactly where their provider-taking twin (fresh provider) \
             panics too - inherited from the core, not from the convenience layer; sites: {:?}",
            total.inherited_panics, total.inherited_sites
        );
    }
    if total.failures.is_empty() {
        println!("OK: every convenience function agrees with its twin");
    } else {
        println!("FAILURES: {}", total.failures.len());
        for f in total.failures.iter().take(40) {
            println!("  {f}");
        }
        std::process::exit(1);
    }
}
