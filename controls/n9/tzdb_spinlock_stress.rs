//! Stress tests for the spin-locked memo inside `FsTzdbProvider`.
//!
//! Run with `cargo test --offline --features compiled_data --test tzdb_spinlock_stress`.
#![cfg(all(feature = "compiled_data", target_family = "unix"))]

use std::cell::Cell;
use std::panic::{catch_unwind, AssertUnwindSafe};
use std::sync::{Arc, Barrier, Once};
use std::thread;

use temporal_rs::options::Disambiguation;
use temporal_rs::provider::TimeZoneProvider;
use temporal_rs::tzdb::FsTzdbProvider;
use temporal_rs::{Calendar, PlainDateTime, TimeZone, ZonedDateTime};

const ZONES: &[&str] = &[
    "UTC",
    "Etc/GMT+5",
    "Africa/Cairo",
    "Africa/Casablanca",
    "Africa/Johannesburg",
    "Africa/Lagos",
    "Africa/Windhoek",
    "America/Anchorage",
    "America/Argentina/Buenos_Aires",
    "America/Caracas",
    "America/Chicago",
    "America/Denver",
    "America/Halifax",
    "America/Havana",
    "America/Los_Angeles",
    "America/Mexico_City",
    "America/New_York",
    "America/Santiago",
    "America/Sao_Paulo",
    "America/St_Johns",
    "Antarctica/Troll",
    "Asia/Dhaka",
    "Asia/Kathmandu",
    "Asia/Kolkata",
    "Asia/Seoul",
    "Asia/Shanghai",
    "Asia/Tehran",
    "Asia/Tokyo",
    "Atlantic/Azores",
    "Australia/Adelaide",
    "Australia/Lord_Howe",
    "Australia/Sydney",
    "Europe/Berlin",
    "Europe/Dublin",
    "Europe/Istanbul",
    "Europe/Lisbon",
    "Europe/London",
    "Europe/Moscow",
    "Pacific/Apia",
    "Pacific/Auckland",
    "Pacific/Chatham",
    "Pacific/Kiritimati",
];

/// Names the provider cannot load: every thread must get the same error for
/// them, before and after they have been asked for by somebody else.
const UNKNOWN: &[&str] = &[
    "Not/A_Zone",
    "Mars/Olympus_Mons",
    "america/new_york",
    "Europe/Berlin ",
    "Europe",
];

const THREADS: usize = 8;

thread_local! {
    static QUIET: Cell<bool> = const { Cell::new(false) };
}

/// Runs `f` under `catch_unwind` without the default "thread panicked" noise.
fn quietly<R>(f: impl FnOnce() -> R) -> thread::Result<R> {
    static HOOK: Once = Once::new();
    HOOK.call_once(|| {
        let default = std::panic::take_hook();
        std::panic::set_hook(Box::new(move |info| {
            if !QUIET.with(Cell::get) {
                default(info);
            }
        }));
    });
    QUIET.with(|q| q.set(true));
    let result = catch_unwind(AssertUnwindSafe(f));
    QUIET.with(|q| q.set(false));
    result
}

#[derive(Clone, Copy, Debug)]
enum Query {
    /// `get_named_tz_offset_nanoseconds` at this many epoch seconds.
    Offset(i64),
    /// The instants of this local date-time (`get_named_tz_epoch_nanoseconds`).
    Local(i32, u8, u8, u8, u8, u8),
}

fn run(provider: &FsTzdbProvider, zone: &str, query: Query) -> String {
    let outcome = quietly(|| match query {
        Query::Offset(seconds) => format!(
            "{:?}",
            provider.get_named_tz_offset_nanoseconds(zone, i128::from(seconds) * 1_000_000_000)
        ),
        Query::Local(year, month, day, hour, minute, second) => {
            // `get_named_tz_epoch_nanoseconds` through the public API: the
            // candidates for the local time, seen under every disambiguation.
            let local = PlainDateTime::try_new(
                year,
                month,
                day,
                hour,
                minute,
                second,
                0,
                0,
                0,
                Calendar::default(),
            )
            .expect("valid date-time");
            let tz = TimeZone::IanaIdentifier(zone.to_string());
            [
                Disambiguation::Compatible,
                Disambiguation::Earlier,
                Disambiguation::Later,
                Disambiguation::Reject,
            ]
            .map(|disambiguation| {
                let zdt = local.to_zoned_date_time_with_provider(&tz, disambiguation, provider);
                format!("{:?}", zdt.map(|z| z.epoch_nanoseconds().as_i128()))
            })
            .join(" | ")
        }
    });
    outcome.unwrap_or_else(|_| "PANIC".to_string())
}

/// The (zone, query) pairs of the workload, zone-major.
fn workload() -> Vec<(&'static str, Query)> {
    let mut work = Vec::new();
    for &zone in ZONES {
        // A few transitions of the zone itself (never the first one, see the
        // panic test below), one second around each.
        let tzif = FsTzdbProvider::default()
            .get(zone)
            .unwrap_or_else(|e| panic!("{zone} must be installed: {e:?}"));
        if let Some(block) = &tzif.data_block2 {
            let times = &block.transition_times;
            let step = (times.len() / 5).max(1);
            for t in times.iter().skip(1).step_by(step) {
                for delta in [-1, 0, 1] {
                    work.push((zone, Query::Offset(t.0 + delta)));
                }
            }
        }
        for seconds in [
            -2_000_000_000,
            -1_000_000_000,
            0,
            1_000_000_000,
            1_489_302_000,
            1_700_000_000,
            2_200_000_000,
            4_102_444_800,
        ] {
            work.push((zone, Query::Offset(seconds)));
        }
        for local in [
            Query::Local(1950, 6, 15, 12, 0, 0),
            Query::Local(2017, 3, 12, 2, 30, 0),
            Query::Local(2017, 11, 5, 1, 30, 0),
            Query::Local(2021, 3, 28, 2, 30, 0),
            Query::Local(2021, 10, 3, 2, 30, 0),
            Query::Local(2045, 7, 1, 0, 0, 0),
        ] {
            work.push((zone, local));
        }
    }
    for &zone in UNKNOWN {
        work.push((zone, Query::Offset(0)));
        work.push((zone, Query::Offset(1_700_000_000)));
        work.push((zone, Query::Local(2020, 1, 1, 0, 0, 0)));
    }
    work
}

#[test]
fn shared_provider_agrees_with_private_providers() {
    let work = Arc::new(workload());
    assert!(ZONES.len() >= 40);

    // Reference answers: every query alone, against a provider of its own
    // (cold memo), cross-checked against one warm sequential provider.
    let warm = FsTzdbProvider::default();
    let expected: Arc<Vec<String>> = Arc::new(
        work.iter()
            .map(|&(zone, query)| {
                let alone = run(&FsTzdbProvider::default(), zone, query);
                assert_eq!(alone, run(&warm, zone, query), "{zone} {query:?} (warm)");
                alone
            })
            .collect(),
    );
    // Sanity of the reference itself. (Some reference answers for installed
    // zones are errors or even "PANIC" - pre-existing lookup defects, e.g.
    // zones without a DST rule after 2037 - which is fine here: the shared
    // provider has to reproduce exactly those outcomes.)
    let mut ok = 0usize;
    for (&(zone, query), answer) in work.iter().zip(expected.iter()) {
        if UNKNOWN.contains(&zone) {
            assert!(!answer.contains("Ok("), "{zone} {query:?}: {answer}");
            assert_ne!(answer, "PANIC", "{zone} {query:?}");
        } else {
            ok += usize::from(answer.starts_with("Ok("));
        }
    }
    assert!(
        ok * 10 >= work.len() * 8,
        "only {ok} of {} reference answers are Ok",
        work.len()
    );

    // Several rounds, each with a new shared provider so that the cold-memo
    // races (two threads missing on the same zone) happen again and again.
    for round in 0..6 {
        let shared = Arc::new(FsTzdbProvider::default());
        let barrier = Arc::new(Barrier::new(THREADS));
        let handles: Vec<_> = (0..THREADS)
            .map(|t| {
                let shared = Arc::clone(&shared);
                let barrier = Arc::clone(&barrier);
                let work = Arc::clone(&work);
                let expected = Arc::clone(&expected);
                thread::spawn(move || {
                    let n = work.len();
                    // Even threads walk the workload zone by zone from
                    // different starting points (so they collide on cold
                    // zones), odd threads jump around with a stride coprime
                    // to the length.
                    let stride = if t % 2 == 0 {
                        1
                    } else {
                        (1..)
                            .map(|k| 7 * t + round + k)
                            .find(|s| gcd(*s, n) == 1)
                            .unwrap()
                    };
                    let start = if t % 4 == 0 { 0 } else { (t * n) / THREADS };
                    barrier.wait();
                    let mut mismatches = Vec::new();
                    for pass in 0..2 {
                        for i in 0..n {
                            let at = (start + i * stride) % n;
                            let (zone, query) = work[at];
                            let got = run(&shared, zone, query);
                            if got != expected[at] {
                                mismatches.push(format!(
                                    "round {round} thread {t} pass {pass}: {zone} {query:?}: \
                                     got {got}, expected {}",
                                    expected[at]
                                ));
                            }
                        }
                    }
                    mismatches
                })
            })
            .collect();
        let mismatches: Vec<String> = handles
            .into_iter()
            .flat_map(|h| h.join().expect("worker thread must not panic"))
            .collect();
        assert!(mismatches.is_empty(), "{}", mismatches.join("\n"));

        // The shared provider still answers like a private one afterwards.
        for (at, &(zone, query)) in work.iter().enumerate().step_by(17) {
            assert_eq!(run(&shared, zone, query), expected[at]);
        }
    }
}

fn gcd(a: usize, b: usize) -> usize {
    if b == 0 {
        a
    } else {
        gcd(b, a % b)
    }
}

/// Epoch seconds of the first transition listed for `zone`.
fn first_transition(zone: &str) -> i64 {
    let tzif = FsTzdbProvider::default().get(zone).unwrap();
    tzif.data_block2.as_ref().unwrap().transition_times[0].0
}

/// A lookup exactly at a zone's first transition panics inside `Tzif::get` in
/// a build with overflow checks (and may do anything it likes in a release
/// build). `Tzif::get` runs outside the spin lock; whatever such a call does,
/// it must not wedge the provider, neither for the panicking thread nor for
/// the others.
#[test]
fn panicking_lookup_does_not_wedge_a_shared_provider() {
    let zones = [
        "America/New_York",
        "Europe/Berlin",
        "Asia/Tokyo",
        "Australia/Sydney",
    ];
    let shared = Arc::new(FsTzdbProvider::default());
    let barrier = Arc::new(Barrier::new(THREADS));

    let handles: Vec<_> = (0..THREADS)
        .map(|t| {
            let shared = Arc::clone(&shared);
            let barrier = Arc::clone(&barrier);
            thread::spawn(move || {
                barrier.wait();
                let mut panics = 0usize;
                for i in 0..50 {
                    let zone = zones[(t + i) % zones.len()];
                    let first = first_transition(zone);
                    let private = FsTzdbProvider::default();

                    // Directly ...
                    let faulty = run(&shared, zone, Query::Offset(first));
                    assert_eq!(faulty, run(&private, zone, Query::Offset(first)));
                    panics += usize::from(faulty == "PANIC");

                    // ... and through a `ZonedDateTime` sitting on that instant.
                    let zdt = ZonedDateTime::try_new(
                        i128::from(first) * 1_000_000_000,
                        Calendar::default(),
                        TimeZone::try_from_identifier_str(zone).unwrap(),
                    );
                    if let Ok(zdt) = zdt {
                        let through = |p: &FsTzdbProvider| {
                            quietly(|| format!("{:?}", zdt.hour_with_provider(p)))
                                .unwrap_or_else(|_| "PANIC".to_string())
                        };
                        let got = through(&shared);
                        assert_eq!(got, through(&private));
                        panics += usize::from(got == "PANIC");
                    }

                    // Right after the failed call, cold or warm, the provider
                    // answers as if nothing had happened.
                    for query in [Query::Offset(first + 1), Query::Offset(1_700_000_000)] {
                        assert_eq!(run(&shared, zone, query), run(&private, zone, query));
                        assert_ne!(run(&shared, zone, query), "PANIC");
                    }
                    assert!(shared.get("Not/A_Zone").is_err());
                }
                panics
            })
        })
        .collect();
    let panics: usize = handles.into_iter().map(|h| h.join().unwrap()).sum();
    if cfg!(debug_assertions) {
        // Documents today's behaviour (an instance of the known
        // first-transition defect); the point of the test is what happens
        // AFTER it.
        assert!(panics > 0, "expected the first-transition lookups to panic");
    }
    assert!(shared.get("America/New_York").is_ok());
}

/// Same through the process-wide provider of the convenience API (outer mutex,
/// inner spin lock): a panic while the mutex is held poisons it, `lock`
/// recovers, and the inner flag is not left set.
#[test]
fn panicking_lookup_does_not_wedge_the_global_provider() {
    let zone = "America/New_York";
    let first = first_transition(zone);
    let at = |seconds: i64| {
        ZonedDateTime::try_new(
            i128::from(seconds) * 1_000_000_000,
            Calendar::default(),
            TimeZone::try_from_identifier_str(zone).unwrap(),
        )
        .unwrap()
    };
    let private = FsTzdbProvider::default();
    let good = at(1_700_000_000);
    let expected = format!("{:?}", good.hour_with_provider(&private));
    assert!(expected.starts_with("Ok("));

    let handles: Vec<_> = (0..THREADS)
        .map(|t| {
            let good = good.clone();
            let bad = at(first);
            let expected = expected.clone();
            thread::spawn(move || {
                for i in 0..100 {
                    if (i + t) % 3 == 0 {
                        let _ = quietly(|| bad.hour());
                    }
                    assert_eq!(format!("{:?}", good.hour()), expected);
                }
            })
        })
        .collect();
    for handle in handles {
        handle.join().unwrap();
    }
    assert_eq!(format!("{:?}", good.hour()), expected);
}
