//! History independence of `FsTzdbProvider`.
//!
//! A long-lived provider is driven through a pseudo-random history of queries
//! over ~40 zones (including unknown and wrongly-cased names). Every answer is
//! compared with the answer of a brand-new provider: values by value, errors
//! by kind and message, panics as panics (`catch_unwind`). In addition
//! `FsTzdbProvider::stats()` must be monotone and must never influence an
//! answer.
//!
//! Run with `cargo test --offline --features compiled_data --test provider_history`.
#![cfg(all(feature = "compiled_data", target_family = "unix"))]

use std::cell::Cell;
use std::collections::BTreeSet;
use std::fmt::Write as _;
use std::panic::{catch_unwind, AssertUnwindSafe};
use std::sync::Once;

use temporal_rs::iso::{IsoDate, IsoDateTime, IsoTime};
use temporal_rs::options::{
    ArithmeticOverflow, DisplayCalendar, DisplayOffset, DisplayTimeZone, ToStringRoundingOptions,
};
use temporal_rs::provider::{TimeZoneProvider, TransitionDirection};
use temporal_rs::tzdb::FsTzdbProvider;
use temporal_rs::{Calendar, TimeZone, ZonedDateTime};

/// ~40 names: ordinary zones, odd zones (negative DST, LMT only, half-hour
/// DST, date-line jumps), links, fixed offsets, and names that are not zones
/// (unknown, wrongly cased, empty, a directory, a non-TZif file, path tricks).
const ZONES: &[&str] = &[
    "America/New_York",
    "America/Chicago",
    "America/Los_Angeles",
    "America/St_Johns",
    "America/Sao_Paulo",
    "America/Caracas",
    "America/Havana",
    "America/Nuuk",
    "America/Argentina/Buenos_Aires",
    "America/Indiana/Knox",
    "Europe/Dublin",
    "Europe/London",
    "Europe/Berlin",
    "Europe/Moscow",
    "Europe/Lisbon",
    "Africa/Casablanca",
    "Africa/Monrovia",
    "Africa/Windhoek",
    "Asia/Kathmandu",
    "Asia/Kolkata",
    "Asia/Tehran",
    "Asia/Tokyo",
    "Asia/Gaza",
    "Asia/Pyongyang",
    "Australia/Lord_Howe",
    "Australia/Sydney",
    "Pacific/Apia",
    "Pacific/Kiritimati",
    "Pacific/Chatham",
    "Pacific/Auckland",
    "Antarctica/Troll",
    "UTC",
    "Etc/GMT+12",
    "Etc/GMT-14",
    "EST5EDT",
    // not zones / not files / wrong case
    "Mars/Olympus_Mons",
    "america/new_york",
    "EUROPE/BERLIN",
    "uTc",
    "",
    "America",
    "zone.tab",
    "Europe/../Europe/Berlin",
];

/// Deterministic xorshift64*.
struct Rng(u64);

impl Rng {
    fn next(&mut self) -> u64 {
        let mut x = self.0;
        x ^= x >> 12;
        x ^= x << 25;
        x ^= x >> 27;
        self.0 = x;
        x.wrapping_mul(0x2545_F491_4F6C_DD1D)
    }
    fn below(&mut self, n: u64) -> u64 {
        self.next() % n
    }
    fn range(&mut self, lo: i64, hi: i64) -> i64 {
        lo + (self.next() % ((hi - lo) as u64 + 1)) as i64
    }
}

#[derive(Debug, Clone)]
enum Op {
    Check(&'static str),
    Get(&'static str),
    Offset(&'static str, i128),
    Local(&'static str, IsoDateTime),
    Transition(&'static str, i128),
    ToString(&'static str, i128),
}

impl Op {
    fn zone(&self) -> &'static str {
        match self {
            Op::Check(z)
            | Op::Get(z)
            | Op::Offset(z, _)
            | Op::Local(z, _)
            | Op::Transition(z, _)
            | Op::ToString(z, _) => z,
        }
    }
}

/// An answer in comparable form.
#[derive(Debug, Clone, PartialEq, Eq)]
enum Answer {
    Value(String),
    Error { kind: String, message: String },
    Panic(String),
}

thread_local! {
    /// Set while a library call is observed under `catch_unwind`.
    static OBSERVING: Cell<bool> = const { Cell::new(false) };
}

/// Runs `f` under `catch_unwind`; a panic of `f` is an observation, so it is
/// not reported on stderr (failed assertions of the test itself still are).
fn observe<R>(f: impl FnOnce() -> R) -> std::thread::Result<R> {
    static HOOK: Once = Once::new();
    HOOK.call_once(|| {
        let default_hook = std::panic::take_hook();
        std::panic::set_hook(Box::new(move |info| {
            if !OBSERVING.with(Cell::get) {
                default_hook(info);
            }
        }));
    });
    OBSERVING.with(|o| o.set(true));
    let result = catch_unwind(AssertUnwindSafe(f));
    OBSERVING.with(|o| o.set(false));
    result
}

fn answer<T: core::fmt::Debug>(
    f: impl FnOnce() -> Result<T, temporal_rs::TemporalError>,
) -> Answer {
    match observe(f) {
        Ok(Ok(v)) => Answer::Value(format!("{v:?}")),
        Ok(Err(e)) => Answer::Error {
            kind: format!("{:?}", e.kind()),
            message: e.message().to_string(),
        },
        Err(payload) => {
            let msg = payload
                .downcast_ref::<String>()
                .cloned()
                .or_else(|| payload.downcast_ref::<&str>().map(|s| s.to_string()))
                .unwrap_or_else(|| "<non-string panic payload>".to_string());
            Answer::Panic(msg)
        }
    }
}

fn run(op: &Op, provider: &FsTzdbProvider) -> Answer {
    match op {
        Op::Check(z) => answer(|| Ok(provider.check_identifier(z))),
        Op::Get(z) => answer(|| provider.get(z)),
        Op::Offset(z, ns) => answer(|| provider.get_named_tz_offset_nanoseconds(z, *ns)),
        Op::Local(z, dt) => answer(|| provider.get_named_tz_epoch_nanoseconds(z, *dt)),
        Op::Transition(z, ns) => {
            answer(|| provider.get_named_tz_transition(z, *ns, TransitionDirection::Next))
        }
        Op::ToString(z, ns) => answer(|| {
            let zdt = ZonedDateTime::try_new(
                *ns,
                Calendar::default(),
                TimeZone::IanaIdentifier(z.to_string()),
            )?;
            zdt.to_ixdtf_string_with_provider(
                DisplayOffset::Auto,
                DisplayTimeZone::Auto,
                DisplayCalendar::Auto,
                ToStringRoundingOptions::default(),
                provider,
            )
        }),
    }
}

const NS_PER_S: i128 = 1_000_000_000;
// 0001-01-01T00:00:00Z and 9999-12-31T23:59:59Z
const MIN_S: i64 = -62_135_596_800;
const MAX_S: i64 = 253_402_300_799;

/// The transition seconds listed in the data of every readable zone.
fn transition_table() -> Vec<(&'static str, Vec<i64>)> {
    ZONES
        .iter()
        .map(|z| {
            let times = FsTzdbProvider::default()
                .get(z)
                .ok()
                .and_then(|t| t.data_block2)
                .map(|db| db.transition_times.iter().map(|s| s.0).collect())
                .unwrap_or_default();
            (*z, times)
        })
        .collect()
}

fn pick_seconds(rng: &mut Rng, transitions: &[i64]) -> i64 {
    match rng.below(10) {
        // on / next to a transition listed in the data (incl. the first and last)
        0..=3 if !transitions.is_empty() => {
            let idx = match rng.below(4) {
                0 => 0,
                1 => transitions.len() - 1,
                _ => rng.below(transitions.len() as u64) as usize,
            };
            transitions[idx] + [-3601, -1, 0, 0, 1, 3600, 86_400][rng.below(7) as usize]
        }
        // around the rule-based transitions after the table / the 2038 boundary
        4 => rng.range(2_145_916_800 - 86_400 * 400, 2_145_916_800 + 86_400 * 4000),
        5 => rng.range(i32::MAX as i64 - 5, i32::MAX as i64 + 5),
        6 => rng.range(-5, 5),
        // the whole supported range, negative and positive
        7 => rng.range(MIN_S, 0),
        8 => rng.range(0, MAX_S),
        _ => rng.range(-3_000_000_000, 5_000_000_000),
    }
}

fn iso_from_seconds(secs: i64, sub_ns: u32) -> Option<IsoDateTime> {
    // civil-from-days (proleptic Gregorian), independent of the crate
    let days = secs.div_euclid(86_400);
    let rem = secs.rem_euclid(86_400);
    let z = days + 719_468;
    let era = z.div_euclid(146_097);
    let doe = z.rem_euclid(146_097);
    let yoe = (doe - doe / 1460 + doe / 36_524 - doe / 146_096) / 365;
    let doy = doe - (365 * yoe + yoe / 4 - yoe / 100);
    let mp = (5 * doy + 2) / 153;
    let d = doy - (153 * mp + 2) / 5 + 1;
    let m = if mp < 10 { mp + 3 } else { mp - 9 };
    let y = yoe + era * 400 + i64::from(m <= 2);

    let mut date = IsoDate::default();
    date.year = i32::try_from(y).ok()?;
    date.month = m as u8;
    date.day = d as u8;
    let time = IsoTime::new(
        (rem / 3600) as u8,
        (rem % 3600 / 60) as u8,
        (rem % 60) as u8,
        (sub_ns / 1_000_000) as u16,
        (sub_ns / 1000 % 1000) as u16,
        (sub_ns % 1000) as u16,
        ArithmeticOverflow::Reject,
    )
    .ok()?;
    IsoDateTime::new(date, time).ok()
}

fn gen_op(rng: &mut Rng, table: &[(&'static str, Vec<i64>)]) -> Op {
    let (zone, transitions) = &table[rng.below(table.len() as u64) as usize];
    let secs = pick_seconds(rng, transitions);
    let sub_ns = if rng.below(3) == 0 {
        rng.below(1_000_000_000) as u32
    } else {
        0
    };
    let ns = secs as i128 * NS_PER_S + sub_ns as i128;
    match rng.below(12) {
        0 => Op::Check(zone),
        1 => Op::Get(zone),
        2..=5 => Op::Offset(zone, ns),
        6..=8 => match iso_from_seconds(secs, sub_ns) {
            Some(dt) => Op::Local(zone, dt),
            None => Op::Offset(zone, ns),
        },
        9 => Op::Transition(zone, ns),
        _ => Op::ToString(zone, ns),
    }
}

/// FNV-1a over the debug form of an answer, to fingerprint a whole history.
fn fingerprint(hash: &mut u64, answer: &Answer) {
    for byte in format!("{answer:?}").bytes() {
        *hash = (*hash ^ u64::from(byte)).wrapping_mul(0x0100_0000_01b3);
    }
}

fn drive(
    seed: u64,
    len: usize,
    table: &[(&'static str, Vec<i64>)],
    hash: &mut u64,
) -> (usize, usize, usize) {
    let mut rng = Rng(seed);
    let long_lived = FsTzdbProvider::default();
    assert_eq!(long_lived.stats(), (0, 0), "a new provider has empty stats");

    let mut loaded: BTreeSet<&'static str> = BTreeSet::new();
    let (mut values, mut errors, mut panics) = (0, 0, 0);

    for step in 0..len {
        let op = gen_op(&mut rng, table);

        let before = long_lived.stats();
        let got = run(&op, &long_lived);
        let after = long_lived.stats();

        let fresh = FsTzdbProvider::default();
        let want = run(&op, &fresh);
        let fresh_stats = fresh.stats();

        assert_eq!(
            got, want,
            "seed {seed:#x} step {step}: {op:?} answered differently by the long-lived provider"
        );

        // reading the statistics (any number of times) changes nothing
        assert_eq!(long_lived.stats(), after);
        assert_eq!(run(&op, &FsTzdbProvider::default()), want);

        // --- statistics: monotone, consistent, and the same number of lookups
        // as the same query on a new provider (a query may look up more than
        // once, e.g. the string conversion: offset, then local date-time)
        assert!(
            after.0 >= before.0 && after.1 >= before.1,
            "stats went backwards at {op:?}"
        );
        assert!(after.1 <= after.0, "more misses than lookups");
        let (dl, dm) = (after.0 - before.0, after.1 - before.1);
        assert!(dm <= dl, "{op:?}: lookups +{dl}, misses +{dm}");
        assert!(fresh_stats.1 <= fresh_stats.0);
        assert_eq!(
            dl, fresh_stats.0,
            "{op:?}: the same query looks up equally often"
        );
        if matches!(op, Op::Check(_) | Op::Transition(..)) {
            assert_eq!((dl, dm), (0, 0), "{op:?} does not touch the cache");
        }
        if dl > 0 {
            let readable = FsTzdbProvider::default().get(op.zone()).is_ok();
            // a new provider misses once on a readable zone and always on others
            assert_eq!(
                fresh_stats.1,
                if readable { 1 } else { fresh_stats.0 },
                "{op:?}"
            );
            if loaded.contains(op.zone()) {
                assert_eq!(dm, 0, "{op:?}: a loaded zone must be a hit");
            } else if readable {
                assert_eq!(dm, 1, "{op:?}: a readable zone is read exactly once");
                loaded.insert(op.zone());
            } else {
                // nothing is cached on failure
                assert_eq!(dm, dl, "{op:?}: an unreadable name misses every time");
            }
        }

        fingerprint(hash, &got);
        match got {
            Answer::Value(_) => values += 1,
            Answer::Error { .. } => errors += 1,
            Answer::Panic(_) => panics += 1,
        }
    }

    // every name that cannot be read is still not cached at the end
    for (zone, _) in table {
        if !loaded.contains(zone) {
            let before = long_lived.stats();
            let got = run(&Op::Get(zone), &long_lived);
            let after = long_lived.stats();
            assert_eq!(got, run(&Op::Get(zone), &FsTzdbProvider::default()));
            assert_eq!((after.0 - before.0, after.1 - before.1), (1, 1));
        }
    }
    (values, errors, panics)
}

#[test]
fn long_lived_provider_answers_like_a_new_one() {
    let table = transition_table();
    assert!(table.len() >= 40);
    assert!(
        table.iter().filter(|(_, t)| !t.is_empty()).count() >= 25,
        "the zoneinfo directory of this machine lacks most of the test zones"
    );

    let (mut values, mut errors, mut panics) = (0, 0, 0);
    let mut hash = 0xcbf2_9ce4_8422_2325_u64;
    for seed in [0x9E37_79B9_7F4A_7C15_u64, 0xC0FF_EE00_D15E_A5E5, 42, 7] {
        let (v, e, p) = drive(seed, 2500, &table, &mut hash);
        values += v;
        errors += e;
        panics += p;
    }
    // the fingerprint only depends on the answers (and the zoneinfo data), so it
    // can be compared between two versions of the library on one machine
    println!(
        "answers compared: {values} values, {errors} errors, {panics} panics; fingerprint {hash:016x}"
    );
    assert!(
        values > 1000 && errors > 100,
        "the history is not varied enough"
    );
}

/// `Display` and `to_ixdtf_string` (process-wide provider, shared helper) agree
/// with `to_ixdtf_string_with_provider` on a new provider, in any order.
#[test]
fn display_and_to_ixdtf_string_forward_to_their_twin() {
    let table = transition_table();
    let mut rng = Rng(0xDEC0_DED0_5EED);
    for _ in 0..1500 {
        let (zone, transitions) = &table[rng.below(table.len() as u64) as usize];
        let ns =
            pick_seconds(&mut rng, transitions) as i128 * NS_PER_S + rng.below(2) as i128 * 123;
        let Ok(zdt) = ZonedDateTime::try_new(
            ns,
            Calendar::default(),
            TimeZone::IanaIdentifier(zone.to_string()),
        ) else {
            continue;
        };

        let offsets = [DisplayOffset::Auto, DisplayOffset::Never];
        let zones = [
            DisplayTimeZone::Auto,
            DisplayTimeZone::Never,
            DisplayTimeZone::Critical,
        ];
        let calendars = [
            DisplayCalendar::Auto,
            DisplayCalendar::Always,
            DisplayCalendar::Never,
            DisplayCalendar::Critical,
        ];
        let (o, z, c) = (
            offsets[rng.below(2) as usize],
            zones[rng.below(3) as usize],
            calendars[rng.below(4) as usize],
        );

        let wrapper = answer(|| zdt.to_ixdtf_string(o, z, c, ToStringRoundingOptions::default()));
        let twin = answer(|| {
            zdt.to_ixdtf_string_with_provider(
                o,
                z,
                c,
                ToStringRoundingOptions::default(),
                &FsTzdbProvider::default(),
            )
        });
        assert_eq!(
            wrapper, twin,
            "to_ixdtf_string({o:?}, {z:?}, {c:?}) on {zone} at {ns}"
        );

        let mut shown = String::new();
        let display = observe(|| write!(shown, "{zdt}"));
        let default_twin = answer(|| {
            zdt.to_ixdtf_string_with_provider(
                DisplayOffset::Auto,
                DisplayTimeZone::Auto,
                DisplayCalendar::Auto,
                ToStringRoundingOptions::default(),
                &FsTzdbProvider::default(),
            )
        });
        match (display, default_twin) {
            (Ok(Ok(())), Answer::Value(v)) => assert_eq!(format!("{shown:?}"), v),
            (Ok(Err(_)), Answer::Error { .. }) => {}
            (Err(_), Answer::Panic(_)) => {}
            (d, t) => panic!(
                "Display on {zone} at {ns}: {:?} vs {t:?}",
                d.map_err(|_| "panic")
            ),
        }
    }
}
