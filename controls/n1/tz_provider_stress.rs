//! Stress test for the process-wide time-zone provider and for `FsTzdbProvider`
//! shared between threads.
//!
//! Run with `cargo test --offline --features compiled_data --test tz_provider_stress`.
//!
//! Every result (value, error or panic) obtained through the convenience API /
//! a shared provider while many threads hammer it is compared with the result
//! of the same call made sequentially on a private, freshly created provider.
#![cfg(all(feature = "compiled_data", target_family = "unix"))]

use std::panic::{catch_unwind, AssertUnwindSafe};
use std::str::FromStr;
use std::sync::mpsc;
use std::sync::{Arc, Barrier, Once};
use std::thread;
use std::time::Duration as StdDuration;

use temporal_rs::options::{
    ArithmeticOverflow, DifferenceSettings, Disambiguation, DisplayCalendar, DisplayOffset,
    DisplayTimeZone, OffsetDisambiguation, RelativeTo, ToStringRoundingOptions, Unit,
};
use temporal_rs::provider::TimeZoneProvider;
use temporal_rs::tzdb::FsTzdbProvider;
use temporal_rs::{Calendar, Duration, Instant, PlainDateTime, TimeZone, ZonedDateTime};

const THREADS: usize = 8;
const ROUNDS: usize = 3;
const WATCHDOG: StdDuration = StdDuration::from_secs(600);

const ZONES: &[&str] = &[
    "America/New_York",
    "America/Chicago",
    "America/Los_Angeles",
    "America/Sao_Paulo",
    "America/St_Johns",
    "America/Caracas",
    "Europe/London",
    "Europe/Berlin",
    "Europe/Dublin",
    "Europe/Moscow",
    "Europe/Lisbon",
    "Africa/Casablanca",
    "Africa/Cairo",
    "Africa/Johannesburg",
    "Africa/Windhoek",
    "Asia/Tokyo",
    "Asia/Kolkata",
    "Asia/Kathmandu",
    "Asia/Tehran",
    "Asia/Shanghai",
    "Asia/Dubai",
    "Asia/Gaza",
    "Asia/Pyongyang",
    "Australia/Sydney",
    "Australia/Lord_Howe",
    "Australia/Adelaide",
    "Pacific/Auckland",
    "Pacific/Chatham",
    "Pacific/Apia",
    "Pacific/Kiritimati",
    "Pacific/Honolulu",
    "Antarctica/Troll",
    "Atlantic/Azores",
    "UTC",
    "Etc/GMT+5",
    // Identifiers without a zone file: every load fails and must stay failing.
    "No/Such_Zone",
    "america/new_york",
    "Europe",
];

/// Epoch seconds: around 2021 transitions, far past, 32-bit limit, footer era.
const INSTANTS: &[i64] = &[
    -2_208_988_800, // 1900-01-01
    0,
    1_615_705_200, // 2021-03-14T07:00Z (New York spring forward)
    1_636_264_800, // 2021-11-07T06:00Z (New York fall back)
    1_325_239_200, // 2011-12-30T10:00Z (Apia skips a day)
    2_147_483_648, // 2038-01-19
    2_233_000_000, // 2040-10 (POSIX footer)
];

/// Local date-times: gaps, overlaps, the Apia day that does not exist.
const LOCALS: &[(i32, u8, u8, u8, u8)] = &[
    (1900, 1, 1, 0, 0),
    (2021, 3, 14, 2, 30),
    (2021, 11, 7, 1, 30),
    (2011, 12, 30, 12, 0),
    (2040, 10, 7, 2, 30),
];

// ---- quiet handling of the panics this test provokes on purpose ----

thread_local! {
    static EXPECTING_PANIC: std::cell::Cell<bool> = const { std::cell::Cell::new(false) };
}

fn install_quiet_hook() {
    static HOOK: Once = Once::new();
    HOOK.call_once(|| {
        let default = std::panic::take_hook();
        std::panic::set_hook(Box::new(move |info| {
            if !EXPECTING_PANIC.with(|e| e.get()) {
                default(info);
            }
        }));
    });
}

/// Runs `f`, rendering value, error and panic alike as a string.
fn guarded<T: std::fmt::Debug>(f: impl FnOnce() -> T) -> String {
    EXPECTING_PANIC.with(|e| e.set(true));
    let r = catch_unwind(AssertUnwindSafe(f));
    EXPECTING_PANIC.with(|e| e.set(false));
    match r {
        Ok(v) => format!("{v:?}"),
        Err(_) => "PANIC".to_string(),
    }
}

// ---- the calls under test: convenience API vs. `*_with_provider` twin ----

#[derive(Clone, Copy)]
enum Via<'a> {
    /// The convenience API (process-wide provider).
    Shared,
    /// The provider-taking core API.
    Provider(&'a FsTzdbProvider),
}

#[derive(Clone, Debug, PartialEq, Eq)]
enum Job {
    Instant {
        zone: &'static str,
        secs: i64,
    },
    Local {
        zone: &'static str,
        local: (i32, u8, u8, u8, u8),
    },
}

fn jobs() -> Vec<Job> {
    let mut v = Vec::new();
    for &zone in ZONES {
        for &secs in INSTANTS {
            v.push(Job::Instant { zone, secs });
        }
        for &local in LOCALS {
            v.push(Job::Local { zone, local });
        }
    }
    v
}

fn tz(zone: &str) -> TimeZone {
    // Exactly the identifier given: no normalisation on the way to the provider.
    TimeZone::IanaIdentifier(zone.to_string())
}

fn run(job: &Job, via: Via<'_>) -> Vec<String> {
    let mut out = Vec::new();
    match *job {
        Job::Instant { zone, secs } => {
            let ns = i128::from(secs) * 1_000_000_000;
            let zdt = ZonedDateTime::try_new(ns, Calendar::default(), tz(zone)).unwrap();
            let later = ZonedDateTime::try_new(
                ns + 200 * 86_400_000_000_000,
                Calendar::default(),
                tz(zone),
            )
            .unwrap();
            let one_day_one_hour = Duration::from_str("P1DT1H").unwrap();
            let one_month = Duration::from_str("P1M").unwrap();
            let mut settings = DifferenceSettings::default();
            settings.largest_unit = Some(Unit::Month);

            out.push(guarded(|| match via {
                Via::Shared => zdt.offset(),
                Via::Provider(p) => zdt.offset_with_provider(p),
            }));
            out.push(guarded(|| match via {
                Via::Shared => zdt.hours_in_day(),
                Via::Provider(p) => zdt.hours_in_day_with_provider(p),
            }));
            out.push(guarded(|| match via {
                Via::Shared => zdt.start_of_day(),
                Via::Provider(p) => zdt.start_of_day_with_provider(p),
            }));
            out.push(guarded(|| match via {
                Via::Shared => zdt.to_plain_datetime(),
                Via::Provider(p) => zdt.to_plain_datetime_with_provider(p),
            }));
            out.push(guarded(|| match via {
                Via::Shared => zdt.to_ixdtf_string(
                    DisplayOffset::Auto,
                    DisplayTimeZone::Auto,
                    DisplayCalendar::Auto,
                    ToStringRoundingOptions::default(),
                ),
                Via::Provider(p) => zdt.to_ixdtf_string_with_provider(
                    DisplayOffset::Auto,
                    DisplayTimeZone::Auto,
                    DisplayCalendar::Auto,
                    ToStringRoundingOptions::default(),
                    p,
                ),
            }));
            out.push(guarded(|| match via {
                Via::Shared => zdt.add(&one_day_one_hour, Some(ArithmeticOverflow::Constrain)),
                Via::Provider(p) => {
                    zdt.add_with_provider(&one_day_one_hour, Some(ArithmeticOverflow::Constrain), p)
                }
            }));
            out.push(guarded(|| match via {
                Via::Shared => zdt.until(&later, settings),
                Via::Provider(p) => zdt.until_with_provider(&later, settings, p),
            }));
            out.push(guarded(|| {
                let instant = Instant::try_new(ns).unwrap();
                let tz = tz(zone);
                match via {
                    Via::Shared => {
                        instant.to_ixdtf_string(Some(&tz), ToStringRoundingOptions::default())
                    }
                    Via::Provider(p) => instant.to_ixdtf_string_with_provider(
                        Some(&tz),
                        ToStringRoundingOptions::default(),
                        p,
                    ),
                }
            }));
            out.push(guarded(|| {
                let relative_to = Some(RelativeTo::ZonedDateTime(zdt.clone()));
                match via {
                    Via::Shared => one_month.total(Unit::Hour, relative_to),
                    Via::Provider(p) => one_month.total_with_provider(Unit::Hour, relative_to, p),
                }
            }));
        }
        Job::Local {
            zone,
            local: (y, mo, d, h, mi),
        } => {
            let pdt =
                PlainDateTime::try_new(y, mo, d, h, mi, 0, 0, 0, 0, Calendar::default()).unwrap();
            let tz = tz(zone);
            for disambiguation in [Disambiguation::Compatible, Disambiguation::Reject] {
                out.push(guarded(|| match via {
                    Via::Shared => pdt.to_zoned_date_time(&tz, disambiguation),
                    Via::Provider(p) => {
                        pdt.to_zoned_date_time_with_provider(&tz, disambiguation, p)
                    }
                }));
            }
            let text = format!("{y:04}-{mo:02}-{d:02}T{h:02}:{mi:02}:00[{zone}]");
            out.push(guarded(|| match via {
                Via::Shared => ZonedDateTime::from_str(
                    &text,
                    Disambiguation::Compatible,
                    OffsetDisambiguation::Reject,
                ),
                Via::Provider(p) => ZonedDateTime::from_str_with_provider(
                    &text,
                    Disambiguation::Compatible,
                    OffsetDisambiguation::Reject,
                    p,
                ),
            }));
            out.push(guarded(|| {
                match via {
                    Via::Shared => RelativeTo::try_from_str(&text),
                    Via::Provider(p) => RelativeTo::try_from_str_with_provider(&text, p),
                }
                .map(|r| format!("{r:?}"))
            }));
        }
    }
    out
}

/// The reference: every job alone, sequentially, on its own fresh provider.
fn expected(jobs: &[Job]) -> Vec<Vec<String>> {
    jobs.iter()
        .map(|job| run(job, Via::Provider(&FsTzdbProvider::default())))
        .collect()
}

/// A per-thread, per-round order of the jobs (cheap deterministic shuffle).
fn order(len: usize, seed: usize) -> Vec<usize> {
    let mut idx: Vec<usize> = (0..len).collect();
    let mut state = (seed as u64).wrapping_mul(0x9E37_79B9_7F4A_7C15) | 1;
    for i in (1..len).rev() {
        state ^= state << 13;
        state ^= state >> 7;
        state ^= state << 17;
        idx.swap(i, (state % (i as u64 + 1)) as usize);
    }
    idx
}

/// Runs `body` on `THREADS` threads released together; fails instead of
/// hanging if they do not all finish in time (deadlock detection).
fn run_threads<F>(body: F) -> Vec<Vec<String>>
where
    F: Fn(usize) -> Vec<String> + Send + Sync + 'static,
{
    let body = Arc::new(body);
    let barrier = Arc::new(Barrier::new(THREADS));
    let (tx, rx) = mpsc::channel();
    for t in 0..THREADS {
        let (body, barrier, tx) = (body.clone(), barrier.clone(), tx.clone());
        thread::spawn(move || {
            barrier.wait();
            let r = catch_unwind(AssertUnwindSafe(|| body(t)));
            let _ = tx.send((t, r.map_err(|_| ())));
        });
    }
    drop(tx);
    let mut results = vec![Vec::new(); THREADS];
    for _ in 0..THREADS {
        match rx.recv_timeout(WATCHDOG) {
            Ok((t, Ok(mismatches))) => results[t] = mismatches,
            Ok((t, Err(()))) => panic!("worker {t} panicked outside a guarded call"),
            Err(e) => panic!("workers did not finish ({e}): deadlock?"),
        }
    }
    results
}

fn compare(job: &Job, got: &[String], want: &[String], who: &str, mismatches: &mut Vec<String>) {
    if got != want {
        mismatches.push(format!("{who}: {job:?}\n   got  {got:?}\n   want {want:?}"));
    }
}

fn assert_no_mismatch(all: Vec<Vec<String>>) {
    let flat: Vec<String> = all.into_iter().flatten().collect();
    assert!(
        flat.is_empty(),
        "{} mismatches, first ones:\n{}",
        flat.len(),
        flat.iter().take(5).cloned().collect::<Vec<_>>().join("\n")
    );
}

// ---- tests ----

#[test]
fn provider_is_send_and_sync() {
    fn check<T: Send + Sync>() {}
    check::<FsTzdbProvider>();
}

/// Many threads x many zones through the convenience API, cold start, with
/// panicking calls (Pacific/Apia, 2011-12-30) interleaved; then a panic that
/// kills a thread while it holds the provider; then everything once more.
#[test]
fn shared_provider_concurrent_calls_match_sequential_private_providers() {
    install_quiet_hook();
    let jobs = Arc::new(jobs());
    let want = Arc::new(expected(&jobs));

    let calls: Vec<&String> = want.iter().flatten().collect();
    eprintln!(
        "reference: {} jobs, {} calls: {} values, {} errors, {} panics",
        jobs.len(),
        calls.len(),
        calls.iter().filter(|c| c.starts_with("Ok(")).count(),
        calls.iter().filter(|c| c.starts_with("Err(")).count(),
        calls.iter().filter(|c| c.as_str() == "PANIC").count(),
    );

    // The fault this test relies on: a call that panics inside the provider.
    let apia = jobs
        .iter()
        .position(|j| {
            *j == Job::Local {
                zone: "Pacific/Apia",
                local: (2011, 12, 30, 12, 0),
            }
        })
        .unwrap();
    if want[apia][0] != "PANIC" {
        eprintln!(
            "note: the Pacific/Apia call no longer panics: {:?}",
            want[apia][0]
        );
    }

    // 1. concurrent, cold cache, each thread in its own order.
    let (j, w) = (jobs.clone(), want.clone());
    assert_no_mismatch(run_threads(move |t| {
        let mut mismatches = Vec::new();
        for round in 0..ROUNDS {
            for i in order(j.len(), t * ROUNDS + round + 1) {
                let got = run(&j[i], Via::Shared);
                compare(
                    &j[i],
                    &got,
                    &w[i],
                    &format!("thread {t} round {round}"),
                    &mut mismatches,
                );
            }
        }
        mismatches
    }));

    // 2. a thread dies from a panic raised while it holds the provider ...
    let died = thread::spawn(|| {
        EXPECTING_PANIC.with(|e| e.set(true));
        let pdt =
            PlainDateTime::try_new(2011, 12, 30, 12, 0, 0, 0, 0, 0, Calendar::default()).unwrap();
        pdt.to_zoned_date_time(&tz("Pacific/Apia"), Disambiguation::Compatible)
            .map(|z| z.epoch_nanoseconds().as_i128())
    })
    .join();
    assert_eq!(died.is_err(), want[apia][0] == "PANIC");

    // ... and a caught panic on this thread ...
    let caught = guarded(|| {
        PlainDateTime::try_new(2011, 12, 30, 12, 0, 0, 0, 0, 0, Calendar::default())
            .unwrap()
            .to_zoned_date_time(&tz("Pacific/Apia"), Disambiguation::Compatible)
    });
    assert_eq!(caught, want[apia][0]);

    // ... and later calls are unaffected: sequentially,
    let mut mismatches = Vec::new();
    for (i, job) in jobs.iter().enumerate() {
        compare(
            job,
            &run(job, Via::Shared),
            &want[i],
            "after panic",
            &mut mismatches,
        );
    }
    assert_no_mismatch(vec![mismatches]);

    // and concurrently (warm cache now).
    let (j, w) = (jobs.clone(), want.clone());
    assert_no_mismatch(run_threads(move |t| {
        let mut mismatches = Vec::new();
        for i in order(j.len(), 1000 + t) {
            let got = run(&j[i], Via::Shared);
            compare(
                &j[i],
                &got,
                &w[i],
                &format!("warm thread {t}"),
                &mut mismatches,
            );
        }
        mismatches
    }));
}

/// One `FsTzdbProvider` shared by reference between threads that all miss the
/// cache for the same zones at the same time; repeated with fresh providers so
/// that the cold path is raced many times.
#[test]
fn one_provider_shared_by_threads_cold_races() {
    install_quiet_hook();
    const RACED: &[&str] = &[
        "Europe/Berlin",
        "America/New_York",
        "No/Such_Zone",
        "Australia/Lord_Howe",
        "europe/berlin",
        "Pacific/Apia",
    ];
    let jobs: Arc<Vec<Job>> = Arc::new(
        jobs()
            .into_iter()
            .filter(|j| match j {
                Job::Instant { zone, .. } | Job::Local { zone, .. } => RACED.contains(zone),
            })
            .collect(),
    );
    let want = Arc::new(expected(&jobs));

    for iteration in 0..12 {
        let provider = Arc::new(FsTzdbProvider::default());
        let (j, w, p) = (jobs.clone(), want.clone(), provider.clone());
        assert_no_mismatch(run_threads(move |t| {
            let mut mismatches = Vec::new();
            // Raw provider entry points first: all threads miss the same zone.
            for zone in RACED {
                let alone = FsTzdbProvider::default();
                let got = guarded(|| {
                    p.get_named_tz_offset_nanoseconds(zone, 1_636_264_800 * 1_000_000_000)
                });
                let want = guarded(|| {
                    alone.get_named_tz_offset_nanoseconds(zone, 1_636_264_800 * 1_000_000_000)
                });
                if got != want {
                    mismatches.push(format!(
                        "iteration {iteration} thread {t} {zone}: {got} != {want}"
                    ));
                }
            }
            for i in order(j.len(), iteration * THREADS + t + 1) {
                let got = run(&j[i], Via::Provider(&p));
                compare(
                    &j[i],
                    &got,
                    &w[i],
                    &format!("iteration {iteration} thread {t}"),
                    &mut mismatches,
                );
            }
            mismatches
        }));

        // Failed loads left no trace; successful ones are keyed by the exact identifier.
        let dump = format!("{provider:?}");
        for zone in [
            "Europe/Berlin",
            "America/New_York",
            "Australia/Lord_Howe",
            "Pacific/Apia",
        ] {
            assert!(
                dump.contains(&format!("{zone:?}: Tzif")),
                "{zone} not cached"
            );
        }
        for zone in ["No/Such_Zone", "europe/berlin"] {
            assert!(!dump.contains(zone), "{zone} left a trace in the cache");
        }
        assert!(dump.contains("poisoned: false"), "cache lock poisoned");
        assert!(!dump.contains("poisoned: true"), "cache lock poisoned");
    }
}
