//! `ZonedDateTime::offset_nanoseconds()` (process-wide provider, process-wide
//! memo of the last answer) against `offset_nanoseconds_with_provider` on
//! private providers: from many threads at once, and sequentially over
//! histories with failing calls and look-alike keys.
//!
//! Run with `--features compiled_data`.
#![cfg(all(feature = "compiled_data", target_family = "unix"))]

use std::sync::{Arc, Barrier};
use std::thread;

use temporal_rs::tzdb::FsTzdbProvider;
use temporal_rs::{Calendar, TemporalResult, TimeZone, ZonedDateTime};

const NS: i128 = 1_000_000_000;
const JULY_2017: i128 = 1_500_000_000 * NS;
const JANUARY_2017: i128 = 1_484_000_000 * NS;

fn zdt(epoch_ns: i128, tz: TimeZone) -> ZonedDateTime {
    ZonedDateTime::try_new(epoch_ns, Calendar::default(), tz).unwrap()
}

fn iana(id: &str) -> TimeZone {
    TimeZone::IanaIdentifier(id.to_string())
}

fn offset_zone(s: &str) -> TimeZone {
    let tz = TimeZone::try_from_identifier_str(s).unwrap();
    assert!(
        matches!(tz, TimeZone::UtcOffset(_)),
        "{s} is an offset zone"
    );
    tz
}

/// Six receivers with six different offsets. Several share the instant and
/// differ in the zone only, two share the zone and differ in the instant only.
fn receivers() -> Vec<ZonedDateTime> {
    vec![
        zdt(JULY_2017, iana("America/New_York")),    // -04:00
        zdt(JANUARY_2017, iana("America/New_York")), // -05:00
        zdt(JULY_2017, iana("Europe/Berlin")),       // +02:00
        zdt(JULY_2017, iana("Asia/Kolkata")),        // +05:30
        zdt(JULY_2017, iana("Pacific/Kiritimati")),  // +14:00
        zdt(JULY_2017, offset_zone("+01:00")),       // +01:00
    ]
}

/// The reference answer: the core method on a provider nobody else uses.
fn reference(receiver: &ZonedDateTime) -> TemporalResult<i64> {
    receiver.offset_nanoseconds_with_provider(&FsTzdbProvider::default())
}

struct Rng(u64);

impl Rng {
    fn next(&mut self) -> u64 {
        self.0 = self.0.wrapping_add(0x9E37_79B9_7F4A_7C15);
        let mut z = self.0;
        z = (z ^ (z >> 30)).wrapping_mul(0xBF58_476D_1CE4_E5B9);
        z = (z ^ (z >> 27)).wrapping_mul(0x94D0_49BB_1331_11EB);
        z ^ (z >> 31)
    }
}

#[test]
fn eight_threads_six_receivers() {
    const THREADS: usize = 8;
    const ROUNDS: usize = 20_000;

    let expected: Vec<i64> = receivers().iter().map(|r| reference(r).unwrap()).collect();
    assert_eq!(
        expected,
        [-4 * 3600, -5 * 3600, 2 * 3600, 19_800, 14 * 3600, 3600].map(|s: i64| s * NS as i64),
        "the six receivers have six different, known offsets"
    );

    let barrier = Arc::new(Barrier::new(THREADS));
    let handles: Vec<_> = (0..THREADS)
        .map(|t| {
            let barrier = Arc::clone(&barrier);
            thread::spawn(move || {
                // Private receivers and private reference answers.
                let receivers = receivers();
                let private = FsTzdbProvider::default();
                let expected: Vec<TemporalResult<i64>> = receivers
                    .iter()
                    .map(|r| r.offset_nanoseconds_with_provider(&private))
                    .collect();
                let mut rng = Rng(0xA11CE + t as u64);
                barrier.wait();
                for round in 0..ROUNDS {
                    // Thread 0 walks round-robin, thread 1 insists on one
                    // receiver for a while, the others pick at random.
                    let i = match t {
                        0 => round % receivers.len(),
                        1 => (round / 64) % receivers.len(),
                        _ => (rng.next() % receivers.len() as u64) as usize,
                    };
                    let got = receivers[i].offset_nanoseconds();
                    assert_eq!(
                        got,
                        expected[i],
                        "thread {t}, round {round}, receiver {i} ({:?})",
                        receivers[i].timezone()
                    );
                    if round % 1024 == 0 {
                        // ... and against a brand-new provider now and then.
                        assert_eq!(got, reference(&receivers[i]));
                    }
                }
            })
        })
        .collect();
    for handle in handles {
        handle.join().expect("no thread failed or dead-locked");
    }
}

/// Failing receivers between and during the successful ones, from several
/// threads: errors stay errors (same kind, same message as the core method on
/// a private provider) and never disturb the answers of the good receivers.
#[test]
fn failing_calls_in_the_mix() {
    const THREADS: usize = 8;
    const ROUNDS: usize = 3_000;

    fn mixed() -> Vec<ZonedDateTime> {
        let mut all = receivers();
        // Unknown zones at the very instants of good receivers.
        all.push(zdt(JULY_2017, iana("No/Such_Zone")));
        all.push(zdt(JULY_2017, iana("america/new_york")));
        all.push(zdt(JANUARY_2017, iana("Europe/Berli")));
        // Looks like the offset receiver, but is a (non-existent) named zone.
        all.push(zdt(JULY_2017, iana("+01:00")));
        all.push(zdt(JULY_2017, iana("60")));
        all
    }

    let barrier = Arc::new(Barrier::new(THREADS));
    let handles: Vec<_> = (0..THREADS)
        .map(|t| {
            let barrier = Arc::clone(&barrier);
            thread::spawn(move || {
                let receivers = mixed();
                let expected: Vec<TemporalResult<i64>> = receivers.iter().map(reference).collect();
                assert_eq!(expected.iter().filter(|e| e.is_err()).count(), 5);
                let mut rng = Rng(0xB0B + t as u64);
                barrier.wait();
                for round in 0..ROUNDS {
                    let i = (rng.next() % receivers.len() as u64) as usize;
                    assert_eq!(
                        receivers[i].offset_nanoseconds(),
                        expected[i],
                        "thread {t}, round {round}, receiver {i} ({:?})",
                        receivers[i].timezone()
                    );
                }
            })
        })
        .collect();
    for handle in handles {
        handle.join().expect("no thread failed or dead-locked");
    }
}

/// Sequential histories on look-alike keys. Every call is compared with the
/// core method on a brand-new provider.
#[test]
fn look_alike_keys_sequentially() {
    let same_instant_other_zone = [
        zdt(JULY_2017, offset_zone("+01:00")),
        zdt(JULY_2017, iana("+01:00")), // error: no such named zone
        zdt(JULY_2017, offset_zone("-01:00")),
        zdt(JULY_2017, offset_zone("+00:01")),
        zdt(JULY_2017, offset_zone("+00:00")),
        zdt(JULY_2017, iana("UTC")),
        zdt(JULY_2017, iana("Etc/GMT-1")),
        zdt(JULY_2017, iana("Europe/London")),
        zdt(JULY_2017, iana("Europe/Londo")), // error
        zdt(JULY_2017, iana("Europe/Berlin")),
        zdt(JULY_2017, iana("europe/berlin")), // error on a case-sensitive fs
    ];
    let same_zone_other_instant = [
        zdt(JULY_2017, iana("Europe/Berlin")),
        zdt(JULY_2017 + 1, iana("Europe/Berlin")),
        zdt(JULY_2017 - 1, iana("Europe/Berlin")),
        zdt(-JULY_2017, iana("Europe/Berlin")),
        zdt(JANUARY_2017, iana("Europe/Berlin")),
        zdt(1_490_490_000 * NS, iana("Europe/Berlin")), // DST starts
        zdt(1_490_490_000 * NS - 1, iana("Europe/Berlin")), // the nanosecond before
        zdt(0, iana("Europe/Berlin")),
        zdt(8_640_000_000_000 * NS, iana("Europe/Berlin")),
        zdt(-8_640_000_000_000 * NS, iana("Europe/Berlin")),
    ];
    for group in [&same_instant_other_zone[..], &same_zone_other_instant[..]] {
        // all ordered pairs, each as the history A B A A B
        for a in group {
            for b in group {
                for receiver in [a, b, a, a, b] {
                    let got = std::panic::catch_unwind(|| receiver.offset_nanoseconds());
                    let want = std::panic::catch_unwind(|| reference(receiver));
                    match (got, want) {
                        (Ok(got), Ok(want)) => assert_eq!(
                            got,
                            want,
                            "{:?} at {}",
                            receiver.timezone(),
                            receiver.epoch_nanoseconds().as_i128()
                        ),
                        (Err(_), Err(_)) => {}
                        (got, want) => panic!(
                            "{:?} at {}: {:?} vs. {:?}",
                            receiver.timezone(),
                            receiver.epoch_nanoseconds().as_i128(),
                            got.is_ok(),
                            want.is_ok()
                        ),
                    }
                }
            }
        }
    }
}

/// The other accessors are untouched and agree with the memoised one.
#[test]
fn offset_string_agrees() {
    for receiver in receivers() {
        for _ in 0..2 {
            let ns = receiver.offset_nanoseconds().unwrap();
            let private = FsTzdbProvider::default();
            assert_eq!(
                ns,
                receiver.offset_nanoseconds_with_provider(&private).unwrap()
            );
            assert_eq!(
                receiver.offset().unwrap(),
                receiver.offset_with_provider(&private).unwrap()
            );
        }
    }
}
