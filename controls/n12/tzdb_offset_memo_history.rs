//! History independence of `FsTzdbProvider::get_named_tz_offset_nanoseconds`.
//!
//! One long-lived provider answers a long pseudo-random history of lookups;
//! every single answer (value, error or panic) is compared with the answer of
//! a brand-new provider that has seen nothing before.
//!
//! Run with `--features compiled_data` (or `tzdb`).
#![cfg(all(feature = "tzdb", target_family = "unix"))]

use std::panic::{catch_unwind, AssertUnwindSafe};

use temporal_rs::provider::{TimeZoneOffset, TimeZoneProvider};
use temporal_rs::tzdb::FsTzdbProvider;
use temporal_rs::TemporalError;

const NS: i128 = 1_000_000_000;

/// Zones with very different offsets at almost every instant, so that an
/// answer leaking from one zone to another cannot go unnoticed.
const ZONES: &[&str] = &[
    "America/New_York",
    "Europe/Berlin",
    "Asia/Kolkata",
    "Australia/Sydney",
    "Pacific/Kiritimati",
    "America/St_Johns",
    "Africa/Casablanca",
    "Europe/Dublin",
    "Asia/Kathmandu",
    "Australia/Lord_Howe",
    "UTC",
    "Etc/GMT+5",
    "Pacific/Apia",
    "America/Sao_Paulo",
];

/// Identifiers that the file-system lookup does not find (or finds under a
/// different spelling only): every one of these is an error, before and after
/// any successful lookup.
const UNKNOWN: &[&str] = &[
    "No/Such_Zone",
    "america/new_york",
    "AMERICA/NEW_YORK",
    "America/New_York ",
    "America/New_Yor",
    "",
    "+01:00",
    "Europe/Berlin/",
    "Europe",
];

/// Interesting seconds: zero, around New York / Berlin / Sydney transitions,
/// the transition seconds themselves, far past and far future (POSIX footer).
const SECONDS: &[i64] = &[
    0,
    1,
    -1,
    1_489_302_000, // 2017-03-12T07:00:00Z  New York DST start
    1_489_301_999,
    1_489_302_001,
    1_509_861_600, // 2017-11-05T06:00:00Z  New York DST end
    1_509_861_599,
    1_490_490_000, // 2017-03-26T01:00:00Z  Berlin DST start
    1_490_489_999,
    1_506_787_200,  // 2017-10-01  Sydney
    -2_717_650_800, // New York leaves LMT (first transition)
    -2_717_650_801,
    -5_000_000_000,
    2_145_916_800, // 2038
    4_102_444_800, // 2100
    4_118_000_000,
    32_503_680_000,  // 3000
    253_402_300_799, // 9999-12-31T23:59:59Z
    -62_135_596_800, // 0001-01-01
];

#[derive(Debug, PartialEq)]
enum Outcome {
    Value(TimeZoneOffset),
    Error(TemporalError),
    Panic,
}

fn ask(provider: &FsTzdbProvider, identifier: &str, epoch_ns: i128) -> Outcome {
    match catch_unwind(AssertUnwindSafe(|| {
        provider.get_named_tz_offset_nanoseconds(identifier, epoch_ns)
    })) {
        Ok(Ok(offset)) => Outcome::Value(offset),
        Ok(Err(error)) => Outcome::Error(error),
        Err(_) => Outcome::Panic,
    }
}

/// The reference: a provider without any history.
fn ask_fresh(identifier: &str, epoch_ns: i128) -> Outcome {
    ask(&FsTzdbProvider::default(), identifier, epoch_ns)
}

struct Rng(u64);

impl Rng {
    fn next(&mut self) -> u64 {
        // splitmix64
        self.0 = self.0.wrapping_add(0x9E37_79B9_7F4A_7C15);
        let mut z = self.0;
        z = (z ^ (z >> 30)).wrapping_mul(0xBF58_476D_1CE4_E5B9);
        z = (z ^ (z >> 27)).wrapping_mul(0x94D0_49BB_1331_11EB);
        z ^ (z >> 31)
    }
    fn below(&mut self, n: usize) -> usize {
        (self.next() % n as u64) as usize
    }
    fn pick<T: Copy>(&mut self, items: &[T]) -> T {
        items[self.below(items.len())]
    }
}

struct History {
    provider: FsTzdbProvider,
    steps: usize,
    values: usize,
    errors: usize,
    panics: usize,
}

impl History {
    fn new() -> Self {
        Self {
            provider: FsTzdbProvider::default(),
            steps: 0,
            values: 0,
            errors: 0,
            panics: 0,
        }
    }

    fn step(&mut self, identifier: &str, epoch_ns: i128) -> Outcome {
        let got = ask(&self.provider, identifier, epoch_ns);
        let want = ask_fresh(identifier, epoch_ns);
        assert_eq!(
            got, want,
            "step {}: {identifier:?} at {epoch_ns} ns: long-lived provider vs. brand-new provider",
            self.steps
        );
        self.steps += 1;
        match got {
            Outcome::Value(_) => self.values += 1,
            Outcome::Error(_) => self.errors += 1,
            Outcome::Panic => self.panics += 1,
        }
        got
    }
}

fn random_history(seed: u64, steps: usize) {
    let mut rng = Rng(seed);
    let mut history = History::new();
    let mut zone = ZONES[0];
    let mut ns = 0i128;
    while history.steps < steps {
        match rng.below(12) {
            // same second, different zone
            0 | 1 => zone = rng.pick(ZONES),
            // same zone, different second (from the list, or near the last one)
            2 => ns = i128::from(rng.pick(SECONDS)) * NS,
            3 => ns += (rng.below(7) as i128 - 3) * NS,
            // same zone, same (truncated) second, different nanosecond
            4 => {
                let sub = rng.below(1_000_000_000) as i128;
                ns = (ns / NS) * NS + if ns < 0 { -sub } else { sub };
            }
            5 => ns += rng.below(2_000_000_000) as i128 - 1_000_000_000,
            // an arbitrary second between the years 1 and 9999
            6 => {
                ns = (-62_135_596_800i128
                    + (rng.next() % (253_402_300_799u64 + 62_135_596_800u64)) as i128)
                    * NS
            }
            // repeat the previous query
            7 => {}
            // A B A B ... on two zones and one instant
            8 => {
                let other: &str = rng.pick(ZONES);
                for _ in 0..3 {
                    history.step(zone, ns);
                    history.step(other, ns);
                }
            }
            // A B A B ... on one zone and two instants
            9 => {
                let other = i128::from(rng.pick(SECONDS)) * NS;
                for _ in 0..3 {
                    history.step(zone, ns);
                    history.step(zone, other);
                }
            }
            // a failing lookup between two identical ones, at the very instant
            // of the memoised answer
            10 => {
                let before = history.step(zone, ns);
                let unknown: &str = rng.pick(UNKNOWN);
                let failed = history.step(unknown, ns);
                assert!(
                    matches!(failed, Outcome::Error(_)),
                    "{unknown:?} is not a zone, got {failed:?}"
                );
                let after = history.step(zone, ns);
                assert_eq!(before, after);
            }
            // the local-time lookup in between (not memoised, must not disturb)
            _ => {
                let other: &str = rng.pick(ZONES);
                let mut date = temporal_rs::iso::IsoDate::default();
                date.year = 1990 + rng.below(60) as i32;
                date.month = 1 + rng.below(12) as u8;
                date.day = 1 + rng.below(28) as u8;
                let iso =
                    temporal_rs::iso::IsoDateTime::new(date, temporal_rs::iso::IsoTime::default());
                if let Ok(iso) = iso {
                    let _ = history.provider.get_named_tz_epoch_nanoseconds(other, iso);
                }
            }
        }
        history.step(zone, ns);
    }
    assert!(history.values > steps / 2, "mostly successful lookups");
    assert!(history.errors > 0, "some failing lookups");
}

#[test]
fn long_random_history_equals_fresh_providers() {
    for seed in [1, 2, 0xC0FFEE] {
        random_history(seed, 6_000);
    }
}

/// The systematic part: every zone x every listed second, in both nesting
/// orders, on one provider.
#[test]
fn grid_both_orders_equals_fresh_providers() {
    let mut history = History::new();
    for &zone in ZONES {
        for &seconds in SECONDS {
            history.step(zone, i128::from(seconds) * NS);
        }
    }
    for &seconds in SECONDS {
        for &zone in ZONES {
            history.step(zone, i128::from(seconds) * NS);
            // ... and once more: a certain hit
            history.step(zone, i128::from(seconds) * NS + 999_999_999);
        }
    }
}

/// Zones that differ at one instant must not borrow each other's answer, and
/// one zone must not reuse the answer of another second.
#[test]
fn neighbours_do_not_share_answers() {
    let provider = FsTzdbProvider::default();
    let july_2017 = 1_500_000_000i128 * NS;
    let january_2017 = 1_484_000_000i128 * NS;
    let offset = |id: &str, ns: i128| {
        provider
            .get_named_tz_offset_nanoseconds(id, ns)
            .map(|o| o.offset)
    };
    for _ in 0..3 {
        assert_eq!(offset("America/New_York", july_2017), Ok(-4 * 3600));
        assert_eq!(offset("Europe/Berlin", july_2017), Ok(2 * 3600));
        assert_eq!(offset("Europe/Berlin", january_2017), Ok(3600));
        assert_eq!(offset("America/New_York", january_2017), Ok(-5 * 3600));
        assert_eq!(offset("Asia/Kolkata", january_2017), Ok(19_800));
        assert!(offset("Asia/Kolkat", january_2017).is_err());
        assert!(offset("asia/kolkata", january_2017).is_err());
        assert_eq!(offset("Asia/Kolkata", january_2017), Ok(19_800));
        // same second, other nanosecond: the same answer, from the memo
        assert_eq!(offset("Asia/Kolkata", january_2017 + 5), Ok(19_800));
    }
}

/// Epoch values far outside the supported range are truncated to an `i64`
/// second exactly as before (and whatever that gives - value, error or panic
/// in a checked build - is what a new provider gives, and leaves no trace).
#[test]
fn extreme_epochs_leave_no_trace() {
    let mut history = History::new();
    let extremes = [
        i128::from(i64::MAX) * NS,
        i128::from(i64::MIN) * NS,
        (i128::from(i64::MAX) + 1) * NS,
        (1i128 << 64) * NS,
        (1i128 << 64) * NS + 1_500_000_000 * NS,
        i128::MAX,
        i128::MIN,
        8_640_000_000_000i128 * NS,
        -8_640_000_000_000i128 * NS,
    ];
    for &zone in &["America/New_York", "Asia/Kolkata", "UTC"] {
        for &ns in &extremes {
            history.step(zone, 1_500_000_000 * NS);
            history.step(zone, ns);
            history.step(zone, ns);
            history.step(zone, 1_500_000_000 * NS);
        }
    }
}
