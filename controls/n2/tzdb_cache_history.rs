//! History independence of `FsTzdbProvider`.
//!
//! A long-lived provider is driven through long pseudo-random (and a few
//! adversarial, hand-shaped) histories of queries over many more zones than the
//! provider's memo of parsed zone files holds. Every single answer - `Ok` value,
//! error (kind and message) or panic - is compared with the answer of a brand-new
//! provider that has never seen another query.
//!
//! Run with `cargo test --offline --features compiled_data --test tzdb_cache_history`.
#![cfg(all(feature = "compiled_data", target_family = "unix"))]

use std::panic::{self, AssertUnwindSafe};

use temporal_rs::{
    iso::{IsoDate, IsoDateTime, IsoTime},
    provider::{TimeZoneProvider, TransitionDirection},
    tzdb::FsTzdbProvider,
    TemporalResult,
};

/// Zones that exist (60 of them: a lot more than the capacity of the memo).
const ZONES: &[&str] = &[
    "UTC",
    "Etc/UTC",
    "Etc/GMT+12",
    "Etc/GMT-14",
    "America/New_York",
    "America/Chicago",
    "America/Denver",
    "America/Los_Angeles",
    "America/Anchorage",
    "America/Sao_Paulo",
    "America/Argentina/Buenos_Aires",
    "America/Indiana/Indianapolis",
    "America/Kentucky/Louisville",
    "America/North_Dakota/Beulah",
    "America/St_Johns",
    "America/Caracas",
    "America/Havana",
    "America/Santiago",
    "America/Godthab",
    "America/Mexico_City",
    "Europe/London",
    "Europe/Dublin",
    "Europe/Berlin",
    "Europe/Paris",
    "Europe/Moscow",
    "Europe/Lisbon",
    "Europe/Istanbul",
    "Europe/Kiev",
    "Europe/Prague",
    "Europe/Amsterdam",
    "Africa/Cairo",
    "Africa/Casablanca",
    "Africa/Windhoek",
    "Africa/Johannesburg",
    "Africa/Monrovia",
    "Africa/Lagos",
    "Asia/Tokyo",
    "Asia/Kolkata",
    "Asia/Kathmandu",
    "Asia/Tehran",
    "Asia/Jerusalem",
    "Asia/Gaza",
    "Asia/Shanghai",
    "Asia/Pyongyang",
    "Asia/Manila",
    "Asia/Dhaka",
    "Australia/Sydney",
    "Australia/Lord_Howe",
    "Australia/Adelaide",
    "Australia/Perth",
    "Pacific/Auckland",
    "Pacific/Chatham",
    "Pacific/Apia",
    "Pacific/Kiritimati",
    "Pacific/Honolulu",
    "Pacific/Norfolk",
    "Antarctica/Troll",
    "Antarctica/Casey",
    "Atlantic/Azores",
    "Indian/Maldives",
];

/// Identifiers that are unknown, wrongly cased, directories, not TZif files, or
/// merely unusual spellings of a path. Whatever a brand-new provider says about
/// them is what the long-lived provider has to say as well.
const ODD_IDS: &[&str] = &[
    "",
    "/",
    ".",
    "..",
    "America",
    "America/",
    "America/Argentina",
    "America/Indiana",
    "Etc",
    "Europe",
    "posix",
    "right",
    "america/new_york",
    "AMERICA/NEW_YORK",
    "America/new_york",
    "europe/berlin",
    "EUROPE/BERLIN",
    "utc",
    "uTc",
    "etc/utc",
    "Nowhere/Land",
    "Europe/Atlantis",
    "America/New_York/",
    "America/New_York/x",
    " America/New_York",
    "America/New_York ",
    "America//New_York",
    "./America/New_York",
    "America/../Europe/Berlin",
    "../zoneinfo/Asia/Tokyo",
    "/usr/share/zoneinfo/Asia/Tokyo",
    "/etc/hostname",
    "posix/Europe/Paris",
    "right/Europe/Paris",
    "posixrules",
    "localtime",
    "Factory",
    "zone.tab",
    "tzdata.zi",
    "leap-seconds.list",
    "+01:00",
    "Europe/Berlin\0",
    "Z\u{fc}rich",
];

/// The observable outcome of one call.
#[derive(Debug, Clone, PartialEq)]
enum Outcome {
    Ok(String),
    Err { kind: String, message: String },
    Panic(String),
}

fn observe<T: std::fmt::Debug>(call: impl FnOnce() -> TemporalResult<T>) -> Outcome {
    match panic::catch_unwind(AssertUnwindSafe(call)) {
        Ok(Ok(value)) => Outcome::Ok(format!("{value:?}")),
        Ok(Err(error)) => Outcome::Err {
            kind: format!("{:?}", error.kind()),
            message: error.message().to_owned(),
        },
        Err(payload) => {
            let message = payload
                .downcast_ref::<&'static str>()
                .map(|s| (*s).to_owned())
                .or_else(|| payload.downcast_ref::<String>().cloned())
                .unwrap_or_else(|| String::from("<non-string panic payload>"));
            Outcome::Panic(message)
        }
    }
}

/// One query against a provider.
#[derive(Debug, Clone)]
enum Query {
    Offset(String, i128),
    Local(String, IsoDateTime),
    Tzif(String),
    Check(String),
    Transition(String, i128),
}

fn run(provider: &FsTzdbProvider, query: &Query) -> Outcome {
    match query {
        Query::Offset(id, ns) => observe(|| provider.get_named_tz_offset_nanoseconds(id, *ns)),
        Query::Local(id, dt) => observe(|| provider.get_named_tz_epoch_nanoseconds(id, *dt)),
        Query::Tzif(id) => observe(|| provider.get(id)),
        Query::Check(id) => observe(|| Ok(provider.check_identifier(id))),
        Query::Transition(id, ns) => {
            observe(|| provider.get_named_tz_transition(id, *ns, TransitionDirection::Next))
        }
    }
}

/// xorshift64*: small, deterministic, good enough.
struct Rng(u64);

impl Rng {
    fn next(&mut self) -> u64 {
        self.0 ^= self.0 >> 12;
        self.0 ^= self.0 << 25;
        self.0 ^= self.0 >> 27;
        self.0.wrapping_mul(0x2545_f491_4f6c_dd1d)
    }

    fn below(&mut self, n: u64) -> u64 {
        self.next() % n
    }

    fn between(&mut self, low: i64, high: i64) -> i64 {
        low + (self.next() % ((high - low) as u64 + 1)) as i64
    }

    fn pick<'a>(&mut self, items: &[&'a str]) -> &'a str {
        items[self.below(items.len() as u64) as usize]
    }
}

const NS_PER_S: i128 = 1_000_000_000;
/// 0001-01-01T00:00:00Z and 9999-12-31T23:59:59Z in epoch seconds.
const YEAR_1: i64 = -62_135_596_800;
const YEAR_9999_END: i64 = 253_402_300_799;

fn random_epoch_ns(rng: &mut Rng) -> i128 {
    let sub = i128::from(rng.below(NS_PER_S as u64));
    match rng.below(20) {
        // Anywhere between the years 1 and 9999.
        0..=5 => i128::from(rng.between(YEAR_1, YEAR_9999_END)) * NS_PER_S + sub,
        // The era the transition tables cover densely.
        6..=11 => i128::from(rng.between(-3_000_000_000, 2_200_000_000)) * NS_PER_S + sub,
        // Beyond the tables: the POSIX footer.
        12..=14 => i128::from(rng.between(2_140_000_000, 8_000_000_000)) * NS_PER_S,
        // Exact, well-known transition seconds (US, EU, AU, LMT ends) +- a little.
        15..=16 => {
            let base = *[
                1_489_302_000_i64, // 2017-03-12T07:00:00Z
                1_509_861_600,     // 2017-11-05T06:00:00Z
                1_490_490_000,     // 2017-03-26T01:00:00Z
                1_506_787_200,     // 2017-09-30T16:00:00Z
                -2_717_650_800,    // 1883-11-18, end of LMT in New York
                -1_680_454_800,
                0,
                i64::from(i32::MAX),
                i64::from(i32::MIN),
            ]
            .get(rng.below(9) as usize)
            .unwrap();
            i128::from(base + rng.between(-2, 2)) * NS_PER_S
        }
        // The limits of the Temporal range and a step beyond.
        17 => {
            let limit = 8_640_000_000_000_i128 * NS_PER_S;
            [limit, -limit, limit + 1, -limit - 1, limit - 1][rng.below(5) as usize]
        }
        // Far outside: whatever happens today (error, wrap-around or panic) has
        // to keep happening.
        18 => [
            i128::MAX,
            i128::MIN,
            i128::from(i64::MAX),
            i128::from(i64::MIN),
            i128::from(i64::MAX) * NS_PER_S,
            i128::from(i64::MIN) * NS_PER_S,
            i128::from(i64::MAX / 1000) * NS_PER_S,
            i128::from(i64::MIN / 1000) * NS_PER_S,
            i128::from(i64::MAX / 1000 + 1) * NS_PER_S,
            i128::from(i64::MIN / 1000 - 1) * NS_PER_S,
        ][rng.below(10) as usize],
        _ => i128::from(rng.next() as i64) * i128::from(rng.between(1, 1_000_000)),
    }
}

fn random_local(rng: &mut Rng) -> IsoDateTime {
    // `IsoDate`, `IsoTime` and `IsoDateTime` are `#[non_exhaustive]` records with
    // public fields.
    let mut date = IsoDate::default();
    let mut time = IsoTime::default();
    match rng.below(20) {
        // Well-formed date-times.
        0..=15 => {
            date.year = match rng.below(4) {
                0 => rng.between(1, 9999) as i32,
                1 => rng.between(1880, 2040) as i32,
                2 => rng.between(2037, 2500) as i32,
                _ => rng.between(2015, 2019) as i32,
            };
            date.month = rng.between(1, 12) as u8;
            date.day = rng.between(1, 28) as u8;
            time.hour = rng.between(0, 23) as u8;
            time.minute = rng.between(0, 59) as u8;
            time.second = rng.between(0, 59) as u8;
            time.nanosecond = rng.between(0, 999) as u16;
        }
        // The classic gap / overlap days, hour by half hour.
        16..=17 => {
            let (year, month, day) = [
                (2017, 3, 12),
                (2017, 11, 5),
                (2017, 3, 26),
                (2017, 10, 29),
                (2017, 10, 1),
                (2017, 4, 2),
                (2011, 12, 30),
                (1883, 11, 18),
                (2038, 1, 19),
                (2040, 3, 11),
                (2040, 11, 4),
            ][rng.below(11) as usize];
            date.year = year;
            date.month = month;
            date.day = day;
            time.hour = rng.between(0, 4) as u8;
            time.minute = [0, 29, 30, 59][rng.below(4) as usize];
            time.second = [0, 59][rng.below(2) as usize];
        }
        // The limits of the Temporal range.
        18 => {
            let (year, month, day) = [
                (-271_821, 4, 19),
                (-271_821, 4, 20),
                (275_760, 9, 13),
                (275_760, 9, 14),
            ][rng.below(4) as usize];
            date.year = year;
            date.month = month;
            date.day = day;
            time.hour = rng.between(0, 23) as u8;
        }
        // Records no validated constructor would produce.
        _ => {
            date.year = rng.next() as i32;
            date.month = rng.next() as u8;
            date.day = rng.next() as u8;
            time.hour = rng.next() as u8;
            time.minute = rng.next() as u8;
            time.second = rng.next() as u8;
            time.millisecond = rng.next() as u16;
        }
    }
    let mut date_time = IsoDateTime::default();
    date_time.date = date;
    date_time.time = time;
    date_time
}

fn random_query(rng: &mut Rng, id: &str) -> Query {
    let id = id.to_owned();
    match rng.below(20) {
        0..=8 => Query::Offset(id, random_epoch_ns(rng)),
        9..=16 => Query::Local(id, random_local(rng)),
        17 => Query::Tzif(id),
        18 => Query::Check(id),
        _ => Query::Transition(id, random_epoch_ns(rng)),
    }
}

/// A pseudo-random history with changing locality: phases with a small working
/// set (mostly hits), phases with a working set just above the capacity (the
/// worst case for least-recently-used eviction), uniform phases, and failing
/// identifiers sprinkled in between.
fn random_history(seed: u64, len: usize) -> Vec<Query> {
    let mut rng = Rng(seed | 1);
    let mut history = Vec::with_capacity(len);
    let mut working_set: Vec<&str> = Vec::new();
    while history.len() < len {
        if working_set.is_empty() || rng.below(97) == 0 {
            let size = [1, 3, 8, 15, 16, 17, 18, 24, 40, 60][rng.below(10) as usize];
            working_set = (0..size).map(|_| rng.pick(ZONES)).collect();
        }
        let id = match rng.below(100) {
            0..=69 => rng.pick(&working_set),
            70..=84 => rng.pick(ZONES),
            _ => rng.pick(ODD_IDS),
        };
        history.push(random_query(&mut rng, id));
    }
    history
}

/// Hand-shaped histories around the capacity of the memo.
fn adversarial_histories() -> Vec<Vec<Query>> {
    let offset = |id: &str, s: i64| Query::Offset(id.to_owned(), i128::from(s) * NS_PER_S);
    let mut histories = Vec::new();

    // Cyclic sweeps over k zones for k around the capacity: with k = capacity + 1
    // every access of a least-recently-used memo is a miss.
    for k in [15, 16, 17, 18, 33, 60] {
        let mut history = Vec::new();
        for round in 0..6_i64 {
            for (i, id) in ZONES[..k].iter().enumerate() {
                history.push(offset(id, 1_500_000_000 + round * 7_776_000 + i as i64));
            }
        }
        histories.push(history);
    }

    // Fill the memo, then a storm of failing queries (errors and panics), then the
    // same zones again - in the original and in the reverse order.
    let mut history = Vec::new();
    for id in &ZONES[..16] {
        history.push(offset(id, 1_489_302_000));
    }
    for id in ODD_IDS {
        history.push(offset(id, 1_489_302_000));
        history.push(Query::Tzif((*id).to_owned()));
    }
    for id in &ZONES[..16] {
        history.push(Query::Offset((*id).to_owned(), i128::MAX));
        history.push(Query::Offset(
            (*id).to_owned(),
            i128::from(i64::MAX / 1000 + 1) * NS_PER_S,
        ));
    }
    for id in ZONES[..17].iter().rev() {
        history.push(offset(id, 1_509_861_600));
    }
    for id in &ZONES[..17] {
        history.push(offset(id, 4_102_444_800));
    }
    histories.push(history);

    // A zone and its wrongly-cased / oddly-spelled twins, interleaved with enough
    // other zones to push each of them out of the memo in turn.
    let mut history = Vec::new();
    let twins = [
        "Europe/Berlin",
        "europe/berlin",
        "EUROPE/BERLIN",
        "Europe/Berlin/",
        "./Europe/Berlin",
        "Europe",
        "America/../Europe/Berlin",
        "posix/Europe/Berlin",
        "right/Europe/Berlin",
    ];
    for round in 0..4 {
        for (i, twin) in twins.iter().enumerate() {
            history.push(offset(twin, 1_490_490_000 - 1 + round));
            for id in ZONES.iter().skip(i * 5 + round as usize).take(4 + i) {
                history.push(offset(id, 1_490_490_000));
            }
            history.push(offset(twin, 1_509_238_800 + round));
        }
    }
    histories.push(history);

    histories
}

fn check_history(
    name: &str,
    history: &[Query],
    mismatches: &mut Vec<String>,
    dump: &mut Option<std::fs::File>,
) -> [usize; 3] {
    use std::io::Write;

    let long_lived = FsTzdbProvider::default();
    let mut counts = [0_usize; 3];
    for (step, query) in history.iter().enumerate() {
        let got = run(&long_lived, query);
        if let Some(file) = dump {
            writeln!(file, "{name} #{step} {query:?} => {got:?}").unwrap();
        }
        let expected = run(&FsTzdbProvider::default(), query);
        match expected {
            Outcome::Ok(_) => counts[0] += 1,
            Outcome::Err { .. } => counts[1] += 1,
            Outcome::Panic(_) => counts[2] += 1,
        }
        if got != expected && mismatches.len() < 20 {
            mismatches.push(format!(
                "{name}, step {step}: {query:?}\n  long-lived provider: {got:?}\n  brand-new provider:  {expected:?}"
            ));
        }
    }
    counts
}

#[test]
fn answers_do_not_depend_on_the_history_of_queries() {
    // Expected panics would otherwise flood the output. (This is the only test of
    // this binary, so replacing the process-wide hook is fine.)
    let hook = panic::take_hook();
    panic::set_hook(Box::new(|_| {}));

    // With `TZDB_HISTORY_DUMP=<file>` every answer of the long-lived provider is
    // also written to <file>, so that two implementations (e.g. before and after
    // a change of the provider) can be compared with `diff`.
    let mut dump = std::env::var_os("TZDB_HISTORY_DUMP")
        .map(|path| std::fs::File::create(path).expect("cannot create the dump file"));

    let mut mismatches = Vec::new();
    let mut totals = [0_usize; 3];
    let mut add = |counts: [usize; 3]| {
        for (total, count) in totals.iter_mut().zip(counts) {
            *total += count;
        }
    };

    for (i, history) in adversarial_histories().iter().enumerate() {
        add(check_history(
            &format!("adversarial history {i}"),
            history,
            &mut mismatches,
            &mut dump,
        ));
    }
    for seed in [0x5eed_0001_u64, 0x0bad_cafe, 0x1234_5678_9abc_def0, 42] {
        let history = random_history(seed, 5_000);
        add(check_history(
            &format!("random history {seed:#x}"),
            &history,
            &mut mismatches,
            &mut dump,
        ));
    }

    panic::set_hook(hook);

    println!(
        "compared {} answers: {} values, {} errors, {} panics",
        totals.iter().sum::<usize>(),
        totals[0],
        totals[1],
        totals[2]
    );
    assert!(
        mismatches.is_empty(),
        "the long-lived provider disagrees with a brand-new provider:\n{}",
        mismatches.join("\n")
    );
    // The histories must really exercise all three kinds of answers.
    assert!(totals[0] > 10_000, "too few successful answers: {totals:?}");
    assert!(totals[1] > 1_000, "too few errors: {totals:?}");
    // (Without overflow checks the arithmetic that panics today wraps instead.)
    if cfg!(debug_assertions) {
        assert!(totals[2] > 10, "too few panics: {totals:?}");
    }
}
